//! C08 - the value of a hexadecimal number with a binary exponent is computed with u64
//! arithmetic: `0x1p64` overflows (panic in debug builds, 0 in release builds), `0x3p63` wraps
//! to 2^63 in release builds. The evaluator reaches this from parsed source code through the
//! string -> number coercion (`"0x1p64" + 0`), where Lua (strtod) gives 2^64.
use std::panic::catch_unwind;

use darklua_core::generator::{LuaGenerator, ReadableLuaGenerator};
use darklua_core::nodes::{Block, Expression, LastStatement, NumberExpression};
use darklua_core::process::{Evaluator, LuaValue};
use darklua_core::rules::{ComputeExpression, ContextBuilder, Rule};
use darklua_core::{Parser, Resources};

fn parse(code: &str) -> Block {
    Parser::default()
        .parse(code)
        .unwrap_or_else(|err| panic!("unable to parse `{}`: {:?}", code, err))
}

fn compute(code: &str) -> String {
    let mut block = parse(code);
    let resources = Resources::from_memory();
    let context = ContextBuilder::new("test.lua", &resources, code).build();
    ComputeExpression::default()
        .process(&mut block, &context)
        .expect("compute_expression should succeed");
    let mut generator = ReadableLuaGenerator::default();
    generator.write_block(&block);
    generator.into_string()
}

fn returned_expression(block: &Block) -> Expression {
    match block.get_last_statement() {
        Some(LastStatement::Return(statement)) => statement
            .iter_expressions()
            .next()
            .expect("a returned value")
            .clone(),
        _ => panic!("return statement expected"),
    }
}

/// `code` is `return <string> <op> <number>`: the folded result must be `expected`, or the
/// expression must be left as it is (an evaluator that answers "unknown" is fine).
fn check(code: &'static str, expected: f64) {
    let output = catch_unwind(|| compute(code)).unwrap_or_else(|_| {
        panic!(
            "compute_expression panicked on `{}` (Lua evaluates it to {:e})",
            code, expected
        )
    });
    let output_block = parse(&output);
    if output_block == parse(code) {
        return;
    }
    match Evaluator::default().evaluate(&returned_expression(&output_block)) {
        LuaValue::Number(value) => assert_eq!(
            value,
            expected,
            "`{}` was folded into `{}` but Lua evaluates it to {:e}",
            code,
            output.trim(),
            expected
        ),
        other => panic!("`{}` became `{}` ({:?})", code, output.trim(), other),
    }
}

#[test]
fn string_with_hexadecimal_exponent_that_fits() {
    // sanity check: passes
    check("return '0x1p4' + 0", 16.0);
}

#[test]
fn string_with_hexadecimal_exponent_of_64() {
    // strtod("0x1p64") == 18446744073709551616
    check("return '0x1p64' + 0", 18446744073709551616.0);
}

#[test]
fn string_with_hexadecimal_mantissa_times_exponent_over_64_bits() {
    // strtod("0x3p63") == 3 * 2^63
    check("return '0x3p63' * 1", 27670116110564327424.0);
}

#[test]
fn negated_string_with_hexadecimal_exponent() {
    check("return -'0x10p60'", -18446744073709551616.0);
}

#[test]
fn number_expression_value() {
    let number: NumberExpression = "0x1p64".parse().expect("`0x1p64` is accepted");
    let value = catch_unwind(|| number.compute_value())
        .unwrap_or_else(|_| panic!("NumberExpression::compute_value panicked on `0x1p64`"));
    assert_eq!(value, 18446744073709551616.0);
}
