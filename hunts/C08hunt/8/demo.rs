//! C08 - `..` converts a number with a fractional part to a string with a `.` as decimal point,
//! but Lua 5.1 formats numbers with sprintf("%.14g"), which uses the decimal point of the current
//! locale (LC_NUMERIC): after os.setlocale("de_DE.UTF-8"), `1.5 .. ""` is "1,5".
//! lua_number_to_string promises to answer "only when every Lua runtime agrees on the result".
use darklua_core::generator::{LuaGenerator, ReadableLuaGenerator};
use darklua_core::nodes::Block;
use darklua_core::rules::{ComputeExpression, ContextBuilder, RemoveUnusedIfBranch, Rule};
use darklua_core::{Parser, Resources};

fn parse(code: &str) -> Block {
    Parser::default()
        .parse(code)
        .unwrap_or_else(|err| panic!("unable to parse `{}`: {:?}", code, err))
}

fn process(rule: &dyn Rule, code: &str) -> String {
    let mut block = parse(code);
    let resources = Resources::from_memory();
    let context = ContextBuilder::new("test.lua", &resources, code).build();
    rule.process(&mut block, &context).expect("rule should succeed");
    let mut generator = ReadableLuaGenerator::default();
    generator.write_block(&block);
    generator.into_string()
}

#[test]
fn concatenation_of_a_fractional_number_is_not_folded() {
    // Lua 5.1 under de_DE.UTF-8: "1,5 kg" - Luau and the "C" locale: "1.5 kg"
    let code = "os.setlocale('de_DE.UTF-8') return 1.5 .. ' kg'";
    let output = process(&ComputeExpression::default(), code);
    assert!(
        parse(&output) == parse(code),
        "`1.5 .. ' kg'` was folded although the decimal point depends on the locale of the Lua 5.1 runtime:\n{}",
        output
    );
}

#[test]
fn branch_taken_under_another_locale_is_kept() {
    let code = "os.setlocale('de_DE.UTF-8') if 0.5 .. '' ~= '0.5' then comma_decimal_point() end";
    let output = process(&RemoveUnusedIfBranch::default(), code);
    assert!(
        output.contains("comma_decimal_point"),
        "the branch executed by Lua 5.1 under de_DE.UTF-8 was removed:\n{}",
        output
    );
}

#[test]
fn concatenation_of_an_integer_is_folded() {
    // sanity check (passes): "%.14g" of an integral value has no decimal point
    let output = process(&ComputeExpression::default(), "return 15 .. ' kg'");
    assert!(parse(&output) == parse("return '15 kg'"), "{}", output);
}
