//! C08 - `<`, `<=`, `>`, `>=` between two strings are folded with a byte-wise comparison, but in
//! Lua 5.1 strings "are compared according to the current locale" (manual 2.5.2, lvm.c l_strcmp
//! uses strcoll) and a script can change it with os.setlocale: under `en_US.UTF-8` (glibc)
//! `"a" < "B"` is true while the evaluator says false. Only Luau compares bytes.
use darklua_core::generator::{LuaGenerator, ReadableLuaGenerator};
use darklua_core::nodes::Block;
use darklua_core::rules::{
    ComputeExpression, ContextBuilder, RemoveUnusedIfBranch, RemoveUnusedWhile, Rule,
};
use darklua_core::{Parser, Resources};

fn parse(code: &str) -> Block {
    Parser::default()
        .parse(code)
        .unwrap_or_else(|err| panic!("unable to parse `{}`: {:?}", code, err))
}

fn process(rule: &dyn Rule, code: &str) -> String {
    let mut block = parse(code);
    let resources = Resources::from_memory();
    let context = ContextBuilder::new("test.lua", &resources, code).build();
    rule.process(&mut block, &context).expect("rule should succeed");
    let mut generator = ReadableLuaGenerator::default();
    generator.write_block(&block);
    generator.into_string()
}

#[test]
fn string_ordering_is_not_folded() {
    // Lua 5.1 after os.setlocale("en_US.UTF-8"): true - Luau and the "C" locale: false
    let code = "os.setlocale('en_US.UTF-8') return 'a' < 'B'";
    let output = process(&ComputeExpression::default(), code);
    assert!(
        parse(&output) == parse(code),
        "`'a' < 'B'` was folded although its value depends on the locale of the Lua 5.1 runtime:\n{}",
        output
    );
}

#[test]
fn branch_taken_under_another_locale_is_kept() {
    let code = "os.setlocale('en_US.UTF-8') if 'a' < 'B' then dictionary_order() end";
    let output = process(&RemoveUnusedIfBranch::default(), code);
    assert!(
        output.contains("dictionary_order"),
        "the branch executed by Lua 5.1 under en_US.UTF-8 was removed:\n{}",
        output
    );
}

#[test]
fn loop_executed_under_another_locale_is_kept() {
    let code = "os.setlocale('en_US.UTF-8') while 'a' < 'B' do if step() then break end end";
    let output = process(&RemoveUnusedWhile::default(), code);
    assert!(
        output.contains("step"),
        "the loop executed by Lua 5.1 under en_US.UTF-8 was removed:\n{}",
        output
    );
}

#[test]
fn string_equality_is_folded() {
    // sanity check (passes): equality does not depend on the locale
    let output = process(&ComputeExpression::default(), "return 'a' == 'B'");
    assert!(parse(&output) == parse("return false"), "{}", output);
}
