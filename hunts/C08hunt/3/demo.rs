//! C08 - when remove_unused_variable drops a declaration whose value has side effects
//! (`local unused = obj.field`), the value is kept as `local _ = obj.field` directly in the
//! enclosing block. That new variable captures every later use of an existing `_`
//! (`local _ = require("underscore")` is a common idiom): the kept expression is not moved
//! safely.
use darklua_core::generator::{LuaGenerator, ReadableLuaGenerator};
use darklua_core::nodes::{Block, Statement};
use darklua_core::rules::{ContextBuilder, RemoveUnusedVariable, Rule};
use darklua_core::{Parser, Resources};

fn parse(code: &str) -> Block {
    Parser::default()
        .parse(code)
        .unwrap_or_else(|err| panic!("unable to parse `{}`: {:?}", code, err))
}

fn process(code: &str) -> String {
    let mut block = parse(code);
    let resources = Resources::from_memory();
    let context = ContextBuilder::new("test.lua", &resources, code).build();
    RemoveUnusedVariable::default()
        .process(&mut block, &context)
        .expect("remove_unused_variable should succeed");
    let mut generator = ReadableLuaGenerator::default();
    generator.write_block(&block);
    generator.into_string()
}

fn count_top_level_declarations_of(block: &Block, name: &str) -> usize {
    block
        .iter_statements()
        .filter(|statement| match statement {
            Statement::LocalAssign(assign) => assign
                .iter_variables()
                .any(|variable| variable.get_identifier().get_name() == name),
            _ => false,
        })
        .count()
}

#[test]
fn kept_side_effect_does_not_shadow_underscore() {
    let code = r#"
local _ = require("underscore")
local unused = obj.field
return _.map(list, callback)
"#;
    let output = process(code);
    let block = parse(&output);

    // before: `_.map` is the `map` function of the underscore library.
    // after:  `_` is `obj.field`
    assert_eq!(
        count_top_level_declarations_of(&block, "_"),
        1,
        "the returned `_.map` now reads the new variable `_` holding `obj.field`:\n{}",
        output
    );
}

#[test]
fn kept_side_effect_does_not_shadow_underscore_parameter() {
    let code = r#"
return function(_, value)
    local unused = value.field
    return _
end
"#;
    let output = process(code);

    // before: the function returns its first argument. after: it returns `value.field`
    assert!(
        !output.contains("local _"),
        "the function now returns `value.field` instead of its first parameter:\n{}",
        output
    );
}
