//! C08 - the evaluator gives string literals containing `\x41`, `\u{41}` or `\z` their Luau
//! value, but darklua also transforms Lua 5.1 code, where the lexer keeps the character that
//! follows an unknown escape (`"\x41"` is the three characters `x41`, `"\z  a"` is `z  a`).
//! Both runtimes accept these literals and disagree on the value, so no definite value can be
//! assigned (same situation as the number -> string conversion, which the evaluator only
//! performs "when every Lua runtime agrees").
use darklua_core::generator::{LuaGenerator, ReadableLuaGenerator};
use darklua_core::nodes::Block;
use darklua_core::rules::{ComputeExpression, ContextBuilder, RemoveUnusedWhile, Rule};
use darklua_core::{Parser, Resources};

fn parse(code: &str) -> Block {
    Parser::default()
        .parse(code)
        .unwrap_or_else(|err| panic!("unable to parse `{}`: {:?}", code, err))
}

fn process(rule: &dyn Rule, code: &str) -> String {
    let mut block = parse(code);
    let resources = Resources::from_memory();
    let context = ContextBuilder::new("test.lua", &resources, code).build();
    rule.process(&mut block, &context).expect("rule should succeed");
    let mut generator = ReadableLuaGenerator::default();
    generator.write_block(&block);
    generator.into_string()
}

fn is_not_folded(code: &str, lua51: &str, luau: &str) {
    let output = process(&ComputeExpression::default(), code);
    assert!(
        parse(&output) == parse(code),
        "`{}` was folded into `{}`: Lua 5.1 evaluates it to {} and Luau to {}",
        code,
        output.trim(),
        lua51,
        luau
    );
}

#[test]
fn length_of_string_with_hexadecimal_escape() {
    is_not_folded(r#"return #"\x41""#, "3", "1");
}

#[test]
fn comparison_of_string_with_unicode_escape() {
    is_not_folded(r#"return "\u{41}" == "A""#, "false", "true");
}

#[test]
fn comparison_of_string_with_z_escape() {
    is_not_folded("return \"a\\z  b\" == \"ab\"", "false", "true");
}

#[test]
fn while_loop_that_runs_with_lua51_is_kept() {
    // Lua 5.1: "\x41" is "x41", different from "A": the loop runs
    let code = r#"while "\x41" ~= "A" do if step() then break end end"#;
    let output = process(&RemoveUnusedWhile::default(), code);
    assert!(
        output.contains("step"),
        "the loop (executed by Lua 5.1) was removed: `{}`",
        output
    );
}

#[test]
fn escapes_shared_by_both_dialects_are_folded() {
    // sanity check (passes)
    let output = process(&ComputeExpression::default(), r#"return #"\65\n\\""#);
    assert!(parse(&output) == parse("return 3"), "{}", output);
}
