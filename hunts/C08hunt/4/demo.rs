//! C08 - the evaluator declares every identifier free of side effects, but reading a GLOBAL
//! variable is a table access on the environment: it invokes the `__index` metamethod of the
//! environment's metatable when the name is absent (autoloaders, `strict` modules, Penlight's
//! `require 'pl'`). Rules drop such reads.
use darklua_core::generator::{LuaGenerator, ReadableLuaGenerator};
use darklua_core::nodes::Block;
use darklua_core::rules::{ContextBuilder, RemoveNilDeclaration, RemoveUnusedVariable, Rule};
use darklua_core::{Parser, Resources};

fn parse(code: &str) -> Block {
    Parser::default()
        .parse(code)
        .unwrap_or_else(|err| panic!("unable to parse `{}`: {:?}", code, err))
}

fn process(rule: &dyn Rule, code: &str) -> String {
    let mut block = parse(code);
    let resources = Resources::from_memory();
    let context = ContextBuilder::new("test.lua", &resources, code).build();
    rule.process(&mut block, &context).expect("rule should succeed");
    let mut generator = ReadableLuaGenerator::default();
    generator.write_block(&block);
    generator.into_string()
}

const AUTOLOADER: &str = r#"
setmetatable(_G, {
    __index = function(_, name)
        print("loading " .. name)
        local module = require(name)
        rawset(_G, name, module)
        return module
    end,
})
"#;

#[test]
fn remove_unused_variable_keeps_the_read_of_a_global() {
    // prints "loading json" (and loads the module, which later code finds with rawget)
    let code = format!("{}\nlocal unused = json\n", AUTOLOADER);
    let output = process(&RemoveUnusedVariable::default(), &code);

    assert!(
        output.contains("json"),
        "the read of the global `json` (an `__index` call on the environment) was dropped:\n{}",
        output
    );
}

#[test]
fn remove_nil_declaration_keeps_the_read_of_a_global() {
    let code = format!("{}\nlocal first = 1, json\nreturn first\n", AUTOLOADER);
    let output = process(&RemoveNilDeclaration::default(), &code);

    assert!(
        output.contains("json"),
        "the read of the global `json` (an `__index` call on the environment) was dropped:\n{}",
        output
    );
}

#[test]
fn a_local_variable_read_can_still_be_dropped() {
    // sanity check (passes): a local is really free of side effects
    let output = process(
        &RemoveUnusedVariable::default(),
        "local json = 1\nlocal unused = json\n",
    );
    assert!(!output.contains("unused"), "{}", output);
}
