//! C08 - the evaluator assumes that an operand known to be a string can never reach a
//! metamethod. Strings share a metatable (`getmetatable("")`): when an arithmetic operand is a
//! string that is not a numeral, or when a string is concatenated with a table, Lua looks the
//! metamethod up in that metatable (`"%d items" % { 3 }`, `"usr" / "bin"` are known idioms).
use darklua_core::generator::{LuaGenerator, ReadableLuaGenerator};
use darklua_core::nodes::{Block, Expression, LastStatement};
use darklua_core::process::Evaluator;
use darklua_core::rules::{ContextBuilder, RemoveUnusedVariable, Rule};
use darklua_core::{Parser, Resources};

fn parse(code: &str) -> Block {
    Parser::default()
        .parse(code)
        .unwrap_or_else(|err| panic!("unable to parse `{}`: {:?}", code, err))
}

fn returned_expression(code: &str) -> Expression {
    match parse(code).get_last_statement() {
        Some(LastStatement::Return(statement)) => statement
            .iter_expressions()
            .next()
            .expect("a returned value")
            .clone(),
        _ => panic!("return statement expected"),
    }
}

#[test]
fn remove_unused_variable_keeps_the_metamethod_call() {
    let code = r#"
getmetatable("").__div = function(left, right)
    print("joining", left, right)
    return left .. "/" .. right
end
local unused = "usr" / "bin"
"#;
    let mut block = parse(code);
    let resources = Resources::from_memory();
    let context = ContextBuilder::new("test.lua", &resources, code).build();
    RemoveUnusedVariable::default()
        .process(&mut block, &context)
        .expect("rule should succeed");
    let mut generator = ReadableLuaGenerator::default();
    generator.write_block(&block);
    let output = generator.into_string();

    // the original prints "joining usr bin"
    assert!(
        output.contains("'usr' / 'bin'") || output.contains("\"usr\" / \"bin\""),
        "the `__div` metamethod call of the string metatable was dropped:\n{}",
        output
    );
}

#[test]
fn arithmetic_on_a_string_that_is_not_a_numeral_may_call_a_metamethod() {
    let evaluator = Evaluator::default();
    for code in [
        "return 'usr' / 'bin'",
        "return '%d items' % { 3 }",
        "return -'abc'",
        "return 'list: ' .. {}",
    ] {
        assert!(
            evaluator.has_side_effects(&returned_expression(code)),
            "`{}` reaches a metamethod of the string metatable, it is not free of side effects",
            code
        );
    }
}

#[test]
fn arithmetic_on_numeral_strings_never_calls_a_metamethod() {
    // sanity check (passes): numerals are converted before any metamethod lookup
    let evaluator = Evaluator::default();
    assert!(!evaluator.has_side_effects(&returned_expression("return '10' / '2'")));
    assert!(!evaluator.has_side_effects(&returned_expression("return 'a' .. 'b'")));
}
