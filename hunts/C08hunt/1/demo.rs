//! C08 - compute_expression replaces `true and f()` by `f()` (and `false or f()`, `nil or ...`):
//! `and` / `or` always yield exactly ONE value, while a bare call or `...` in the last position
//! of an expression list yields all its values.
use darklua_core::generator::{LuaGenerator, ReadableLuaGenerator};
use darklua_core::nodes::Block;
use darklua_core::rules::{ComputeExpression, ContextBuilder, Rule};
use darklua_core::{Parser, Resources};

fn parse(code: &str) -> Block {
    Parser::default()
        .parse(code)
        .unwrap_or_else(|err| panic!("unable to parse `{}`: {:?}", code, err))
}

fn compute(code: &str) -> String {
    let mut block = parse(code);
    let resources = Resources::from_memory();
    let context = ContextBuilder::new("test.lua", &resources, code).build();
    ComputeExpression::default()
        .process(&mut block, &context)
        .expect("compute_expression should succeed");
    let mut generator = ReadableLuaGenerator::default();
    generator.write_block(&block);
    generator.into_string()
}

/// `input` must become `expected` (the operand kept in parentheses, so that it still yields a
/// single value) or stay as it is.
fn check(input: &str, expected: &str) {
    let output = compute(input);
    let output_block = parse(&output);
    assert!(
        output_block == parse(expected) || output_block == parse(input),
        "`{}` was rewritten into `{}`: the number of values changed (expected `{}` or no change)",
        input,
        output.trim(),
        expected,
    );
}

#[test]
fn true_and_call_in_return() {
    // function f() return 1, 2 end: the original returns 1, the output returns 1, 2
    check("return true and f()", "return (f())");
}

#[test]
fn false_or_call_in_return() {
    check("return false or f()", "return (f())");
}

#[test]
fn nil_or_variadic_arguments_in_return() {
    check("return nil or ...", "return (...)");
}

#[test]
fn true_and_variadic_arguments_in_table() {
    // #{ true and ... } is 1, #{ ... } is select('#', ...)
    check("return { true and ... }", "return { (...) }");
}

#[test]
fn true_and_call_in_local_assignment() {
    // `b` is nil in the original
    check("local a, b = true and f() return b", "local a, b = (f()) return b");
}

#[test]
fn true_and_call_as_last_argument() {
    check("print(true and f())", "print((f()))");
}
