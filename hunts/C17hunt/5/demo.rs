use darklua_core::generator::{DenseLuaGenerator, LuaGenerator};
use darklua_core::nodes::Block;
use darklua_core::rules::{ContextBuilder, Rule};
use darklua_core::{Parser, Resources};

#[allow(dead_code)]
fn apply(rule_json5: &str, code: &str) -> (Block, String) {
    let rule: Box<dyn Rule> = json5::from_str(rule_json5).expect("valid rule configuration");
    let resources = Resources::from_memory();
    let mut block = Parser::default().parse(code).expect("input should parse");
    let context = ContextBuilder::new("test.lua", &resources, code).build();
    rule.process(&mut block, &context).expect("rule should succeed");
    let mut generator = DenseLuaGenerator::new(80);
    generator.write_block(&block);
    let output = generator.into_string();
    // the generated code must be valid and is what a runtime would execute
    let reparsed = Parser::default()
        .parse(&output)
        .unwrap_or_else(|err| panic!("generated code does not parse: {:?}\n{}", err, output));
    (reparsed, output)
}

use darklua_core::nodes::{Expression, LastStatement};

fn count_table_constructors(code: &str) -> usize {
    code.matches('{').count()
}

/// A global preset to a table is one table: every read gives the same object.
#[test]
fn injected_table_keeps_its_identity() {
    let code = "return FLAGS == FLAGS\n";
    let (block, output) =
        apply("{ rule: 'inject_global_value', identifier: 'FLAGS', value: [] }", code);

    let returned = match block.get_last_statement() {
        Some(LastStatement::Return(values)) => values.iter_expressions().next().cloned(),
        _ => None,
    }
    .expect("a return statement is expected");

    if let Expression::Binary(binary) = &returned {
        assert!(
            !(matches!(binary.left(), Expression::Table(_))
                && matches!(binary.right(), Expression::Table(_))),
            "`FLAGS == FLAGS` is true when FLAGS is preset to a table, but two distinct table \
             constructors are never equal: {}",
            output
        );
    }
}

#[test]
fn mutation_of_injected_table_is_visible_to_next_read() {
    let code = "table.insert(CONFIG.list, 'x')\nCONFIG.ready = true\nreturn #CONFIG.list, CONFIG.ready\n";
    let (_, output) = apply(
        "{ rule: 'inject_global_value', identifier: 'CONFIG', value: { list: [] } }",
        code,
    );

    // with CONFIG preset to `{ list = {} }` the program returns `1, true`. That requires every
    // read of CONFIG to evaluate to the same table, so the value can be built at most once
    assert!(
        count_table_constructors(&output) <= 2,
        "every read of CONFIG builds a new table, the program now returns `0, nil`:\n{}",
        output
    );
}
