use darklua_core::generator::{DenseLuaGenerator, LuaGenerator};
use darklua_core::nodes::Block;
use darklua_core::rules::{ContextBuilder, Rule};
use darklua_core::{Parser, Resources};

#[allow(dead_code)]
fn apply(rule_json5: &str, code: &str) -> (Block, String) {
    let rule: Box<dyn Rule> = json5::from_str(rule_json5).expect("valid rule configuration");
    let resources = Resources::from_memory();
    let mut block = Parser::default().parse(code).expect("input should parse");
    let context = ContextBuilder::new("test.lua", &resources, code).build();
    rule.process(&mut block, &context).expect("rule should succeed");
    let mut generator = DenseLuaGenerator::new(80);
    generator.write_block(&block);
    let output = generator.into_string();
    // the generated code must be valid and is what a runtime would execute
    let reparsed = Parser::default()
        .parse(&output)
        .unwrap_or_else(|err| panic!("generated code does not parse: {:?}\n{}", err, output));
    (reparsed, output)
}

/// `assert(...)` used as the prefix of a field access, an index, a method call or another call is
/// still an `assert` call of the global function: it must be replaced too.
#[test]
fn assert_call_used_as_a_prefix_is_removed() {
    for code in [
        "local ok, err = pcall(function() return assert(nil, 'boom').x end)\nreturn err\n",
        "return assert(load(source), 'unable to load')()\n",
        "return assert(object, 'no object'):method()\n",
        "return assert(list, 'no list')[1]\n",
        "assert(callback, 'callback expected')(1)\n",
    ] {
        let (_, output) = apply("'remove_assertions'", code);
        assert!(
            !output.contains("assert"),
            "the global `assert` is still called in the generated code:\n{}\n=>\n{}",
            code,
            output
        );
    }
}
