use darklua_core::generator::{DenseLuaGenerator, LuaGenerator};
use darklua_core::nodes::Block;
use darklua_core::rules::{ContextBuilder, Rule};
use darklua_core::{Parser, Resources};

#[allow(dead_code)]
fn apply(rule_json5: &str, code: &str) -> (Block, String) {
    let rule: Box<dyn Rule> = json5::from_str(rule_json5).expect("valid rule configuration");
    let resources = Resources::from_memory();
    let mut block = Parser::default().parse(code).expect("input should parse");
    let context = ContextBuilder::new("test.lua", &resources, code).build();
    rule.process(&mut block, &context).expect("rule should succeed");
    let mut generator = DenseLuaGenerator::new(80);
    generator.write_block(&block);
    let output = generator.into_string();
    // the generated code must be valid and is what a runtime would execute
    let reparsed = Parser::default()
        .parse(&output)
        .unwrap_or_else(|err| panic!("generated code does not parse: {:?}\n{}", err, output));
    (reparsed, output)
}

/// `function LIB.helper() end` reads the global LIB (it is `LIB.helper = function() end`). With
/// LIB preset to a table the statement works; the generated code must not be left reading a
/// global that is never defined.
#[test]
fn function_statement_name_reads_the_injected_global() {
    let code = "function LIB.helper() return 1 end\nfunction LIB:method() return 2 end\n";
    let (_, output) = apply(
        "{ rule: 'inject_global_value', identifier: 'LIB', value: {} }",
        code,
    );

    assert!(
        !output.contains("LIB"),
        "the generated code still reads the global `LIB`, which is nil at run time (the rule \
         inlines the value, it never defines the global): `attempt to index nil`\n{}",
        output
    );
}
