use darklua_core::generator::{DenseLuaGenerator, LuaGenerator};
use darklua_core::nodes::Block;
use darklua_core::rules::{ContextBuilder, Rule};
use darklua_core::{Parser, Resources};

#[allow(dead_code)]
fn apply(rule_json5: &str, code: &str) -> (Block, String) {
    let rule: Box<dyn Rule> = json5::from_str(rule_json5).expect("valid rule configuration");
    let resources = Resources::from_memory();
    let mut block = Parser::default().parse(code).expect("input should parse");
    let context = ContextBuilder::new("test.lua", &resources, code).build();
    rule.process(&mut block, &context).expect("rule should succeed");
    let mut generator = DenseLuaGenerator::new(80);
    generator.write_block(&block);
    let output = generator.into_string();
    // the generated code must be valid and is what a runtime would execute
    let reparsed = Parser::default()
        .parse(&output)
        .unwrap_or_else(|err| panic!("generated code does not parse: {:?}\n{}", err, output));
    (reparsed, output)
}

use darklua_core::nodes::Statement;

/// `assert(t.ready)` in statement position must not introduce a new local variable named `_`
/// in the enclosing block: the program already uses `_` and reads it afterwards.
#[test]
fn removed_assert_statement_does_not_shadow_existing_underscore_variable() {
    let code = "local _, value = compute()\nassert(t.ready)\nreturn _, value\n";
    let (block, output) = apply("'remove_assertions'", code);

    // count the declarations of `_` directly in the top-level block: the original has one
    let declarations = block
        .iter_statements()
        .filter(|statement| match statement {
            Statement::LocalAssign(assign) => assign
                .iter_variables()
                .any(|variable| variable.get_name() == "_"),
            _ => false,
        })
        .count();

    assert_eq!(
        declarations, 1,
        "the removed assert call leaks a new `local _` into the enclosing scope, so the final \
         `return _, value` reads `t.ready` instead of the first result of `compute()`:\n{}",
        output
    );
}

#[test]
fn removed_profiling_statement_does_not_shadow_existing_underscore_variable() {
    let code = "local _ = 'keep'\ndebug.profilebegin(names.main)\nprint(_)\n";
    let (block, output) = apply("'remove_debug_profiling'", code);

    let declarations = block
        .iter_statements()
        .filter(|statement| match statement {
            Statement::LocalAssign(assign) => assign
                .iter_variables()
                .any(|variable| variable.get_name() == "_"),
            _ => false,
        })
        .count();

    assert_eq!(declarations, 1, "`print(_)` now prints `names.main`:\n{}", output);
}
