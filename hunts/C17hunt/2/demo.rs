use darklua_core::generator::{DenseLuaGenerator, LuaGenerator};
use darklua_core::nodes::Block;
use darklua_core::rules::{ContextBuilder, Rule};
use darklua_core::{Parser, Resources};

#[allow(dead_code)]
fn apply(rule_json5: &str, code: &str) -> (Block, String) {
    let rule: Box<dyn Rule> = json5::from_str(rule_json5).expect("valid rule configuration");
    let resources = Resources::from_memory();
    let mut block = Parser::default().parse(code).expect("input should parse");
    let context = ContextBuilder::new("test.lua", &resources, code).build();
    rule.process(&mut block, &context).expect("rule should succeed");
    let mut generator = DenseLuaGenerator::new(80);
    generator.write_block(&block);
    let output = generator.into_string();
    // the generated code must be valid and is what a runtime would execute
    let reparsed = Parser::default()
        .parse(&output)
        .unwrap_or_else(|err| panic!("generated code does not parse: {:?}\n{}", err, output));
    (reparsed, output)
}

use darklua_core::nodes::{Arguments, Expression, LastStatement};

/// A function returning its arguments returns *no value* when it is called without arguments:
/// `select('#', assert())` is 0 and `print(assert())` prints an empty line.
#[test]
fn assert_call_without_arguments_produces_zero_values() {
    let code = "return select('#', assert())\n";
    let (block, output) = apply("'remove_assertions'", code);

    let returned = match block.get_last_statement() {
        Some(LastStatement::Return(values)) => values.iter_expressions().next().cloned(),
        _ => None,
    }
    .expect("a return statement is expected");

    let call = match returned {
        Expression::Call(call) => call,
        other => panic!("unexpected expression {:?}", other),
    };
    let last_argument = match call.get_arguments() {
        Arguments::Tuple(tuple) => tuple.iter_values().last().cloned(),
        _ => None,
    };

    // `select('#')`, `select('#', select(1))`, ... are all fine, but a trailing `nil` literal is
    // one value: the program returns 1 instead of 0
    assert!(
        !matches!(last_argument, Some(Expression::Nil(_))),
        "`assert()` was replaced with the single value `nil`: {}",
        output
    );
}
