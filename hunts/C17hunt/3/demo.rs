use darklua_core::generator::{DenseLuaGenerator, LuaGenerator};
use darklua_core::nodes::Block;
use darklua_core::rules::{ContextBuilder, Rule};
use darklua_core::{Parser, Resources};

#[allow(dead_code)]
fn apply(rule_json5: &str, code: &str) -> (Block, String) {
    let rule: Box<dyn Rule> = json5::from_str(rule_json5).expect("valid rule configuration");
    let resources = Resources::from_memory();
    let mut block = Parser::default().parse(code).expect("input should parse");
    let context = ContextBuilder::new("test.lua", &resources, code).build();
    rule.process(&mut block, &context).expect("rule should succeed");
    let mut generator = DenseLuaGenerator::new(80);
    generator.write_block(&block);
    let output = generator.into_string();
    // the generated code must be valid and is what a runtime would execute
    let reparsed = Parser::default()
        .parse(&output)
        .unwrap_or_else(|err| panic!("generated code does not parse: {:?}\n{}", err, output));
    (reparsed, output)
}

use darklua_core::nodes::{Arguments, Expression, LastStatement};

fn last_argument_of_returned_call(block: &Block) -> Option<Expression> {
    let returned = match block.get_last_statement() {
        Some(LastStatement::Return(values)) => values.iter_expressions().next().cloned(),
        _ => None,
    }
    .expect("a return statement is expected");

    let call = match returned {
        Expression::Call(call) => call,
        other => panic!("unexpected expression {:?}", other),
    };
    match call.get_arguments() {
        Arguments::Tuple(tuple) => tuple.iter_values().last().cloned(),
        _ => None,
    }
}

/// `debug.profileend()` (like a no-op function) returns no value: `select('#', debug.profileend())`
/// is 0 in the original program.
#[test]
fn profiling_call_in_last_argument_position_produces_zero_values() {
    let code = "return select('#', debug.profileend())\n";
    let (block, output) = apply("'remove_debug_profiling'", code);

    assert!(
        !matches!(last_argument_of_returned_call(&block), Some(Expression::Nil(_))),
        "`debug.profileend()` was replaced with the single value `nil`, the program now returns 1: {}",
        output
    );
}

#[test]
fn profiling_call_with_side_effects_in_last_argument_position_produces_zero_values() {
    let code = "return select('#', debug.profilebegin(name()))\n";
    let (block, output) = apply("'remove_debug_profiling'", code);

    // `(name() or true) and nil` is always exactly one value
    assert!(
        !matches!(last_argument_of_returned_call(&block), Some(Expression::Binary(_))),
        "`debug.profilebegin(name())` was replaced with an expression that has exactly one value: {}",
        output
    );
}
