use darklua_core::nodes::{Expression, LastStatement, TableEntry};
use darklua_core::Parser;

#[test]
fn non_ascii_strings_are_written_in_a_way_lua_51_understands() {
    // what `darklua convert data.json` does with `{ "name": "café" }`
    let data = json5::from_str::<serde_json::Value>("{ \"name\": \"caf\u{e9}\" }").unwrap();
    let code = darklua_core::convert_data(data).expect("a legal JSON document should convert");
    println!("{}", code);

    // what the code means for Luau (and for darklua's own parser): the right bytes
    let block = Parser::default().parse(&code).unwrap();
    let Some(LastStatement::Return(statement)) = block.get_last_statement() else {
        panic!("return statement expected")
    };
    let Some(Expression::Table(table)) = statement.iter_expressions().next() else {
        panic!("table expected")
    };
    let Some(TableEntry::Field(field)) = table.iter_entries().next() else {
        panic!("field entry expected")
    };
    let Expression::String(string) = field.get_value() else {
        panic!("string expected")
    };
    assert_eq!(string.get_value(), "caf\u{e9}".as_bytes());

    // what the code means for Lua 5.1: the manual (2.1) only knows the escapes
    // \a \b \f \n \r \t \v \\ \" \' \<newline> and \ddd; llex.c read_string keeps the
    // character that follows any other backslash, so 'caf\u{e9}' is the 8 bytes `cafu{e9}`.
    // Raw UTF-8 bytes or decimal escapes ('caf\195\169') mean the same bytes in both dialects.
    assert!(
        !code.contains("\\u{"),
        "the generated code relies on the Luau-only `\\u{{...}}` escape: {}",
        code
    );
}
