use darklua_core::nodes::{
    BinaryOperator, Block, Expression, LastStatement, Statement, TableEntry, UnaryOperator,
};
use darklua_core::{process, Options, Parser, Resources};

/// A Lua value, as far as data literals go.
#[derive(Debug, Clone, PartialEq)]
#[allow(dead_code)]
enum V {
    Nil,
    Bool(bool),
    Num(f64),
    Str(Vec<u8>),
    Table(Vec<(V, V)>),
}

#[allow(dead_code)]
impl V {
    fn get(&self, key: &V) -> V {
        match self {
            V::Table(entries) => entries
                .iter()
                .find(|(k, _)| k == key)
                .map(|(_, v)| v.clone())
                .unwrap_or(V::Nil),
            _ => panic!("not a table: {:?}", self),
        }
    }
    fn field(&self, name: &str) -> V {
        self.get(&V::Str(name.as_bytes().to_vec()))
    }
    fn index(&self, i: usize) -> V {
        self.get(&V::Num(i as f64))
    }
}

/// Evaluates the kind of expression a data file is converted into, the way Lua would:
/// it fails where Lua raises an error (`nil` or NaN used as a table key).
fn eval(e: &Expression) -> Result<V, String> {
    Ok(match e {
        Expression::Nil(_) => V::Nil,
        Expression::True(_) => V::Bool(true),
        Expression::False(_) => V::Bool(false),
        Expression::Number(n) => V::Num(n.compute_value()),
        Expression::String(s) => V::Str(s.get_value().to_vec()),
        Expression::Parenthese(p) => eval(p.inner_expression())?,
        Expression::Unary(u) => match (u.operator(), eval(u.get_expression())?) {
            (UnaryOperator::Minus, V::Num(n)) => V::Num(-n),
            other => return Err(format!("unexpected unary expression {:?}", other)),
        },
        Expression::Binary(b) => match (b.operator(), eval(b.left())?, eval(b.right())?) {
            (BinaryOperator::Slash, V::Num(l), V::Num(r)) => V::Num(l / r),
            other => return Err(format!("unexpected binary expression {:?}", other)),
        },
        Expression::Field(f) => {
            // math.huge
            if f.get_field().get_name() == "huge" {
                V::Num(f64::INFINITY)
            } else {
                return Err(format!("unexpected field expression {:?}", f));
            }
        }
        Expression::Table(t) => {
            let mut entries: Vec<(V, V)> = Vec::new();
            let mut index = 0.0;
            for entry in t.iter_entries() {
                let (k, v) = match entry {
                    TableEntry::Field(f) => (
                        V::Str(f.get_field().get_name().as_bytes().to_vec()),
                        eval(f.get_value())?,
                    ),
                    TableEntry::Index(i) => (eval(i.get_key())?, eval(i.get_value())?),
                    TableEntry::Value(v) => {
                        index += 1.0;
                        (V::Num(index), eval(v)?)
                    }
                };
                match &k {
                    V::Nil => return Err("Lua error: table index is nil".to_owned()),
                    V::Num(n) if n.is_nan() => {
                        return Err("Lua error: table index is NaN".to_owned())
                    }
                    _ => {}
                }
                entries.retain(|(ek, _)| *ek != k);
                if v != V::Nil {
                    entries.push((k, v));
                }
            }
            V::Table(entries)
        }
        other => return Err(format!("unexpected expression {:?}", other)),
    })
}

/// Finds the expression returned by the first bundled module (`local function __modImpl() return <expression> end`).
fn module_expression(block: &Block) -> Expression {
    fn find(block: &Block) -> Option<Expression> {
        for statement in block.iter_statements() {
            match statement {
                Statement::Do(d) => {
                    if let Some(e) = find(d.get_block()) {
                        return Some(e);
                    }
                }
                Statement::LocalFunction(f) => {
                    if let Some(LastStatement::Return(r)) = f.get_block().get_last_statement() {
                        return r.iter_expressions().next().cloned();
                    }
                }
                _ => {}
            }
        }
        None
    }
    find(block).expect("unable to find the bundled module")
}

/// Bundles `return require('./<file_name>')` and returns the generated code.
fn bundle_data(file_name: &str, content: &str) -> Result<String, String> {
    let resources = Resources::from_memory();
    resources
        .write(
            ".darklua.json",
            "{ \"rules\": [], \"generator\": \"dense\", \"bundle\": { \"require_mode\": \"path\" } }",
        )
        .unwrap();
    resources
        .write("src/main.lua", &format!("return require('./{}')", file_name))
        .unwrap();
    resources
        .write(&format!("src/{}", file_name), content)
        .unwrap();
    process(
        &resources,
        Options::new("src/main.lua").with_output("out.lua"),
    )
    .map_err(|err| err.to_string())?
    .result()
    .map_err(|errors| {
        errors
            .into_iter()
            .map(|err| err.to_string())
            .collect::<Vec<_>>()
            .join("\n")
    })?;
    Ok(resources.get("out.lua").unwrap())
}

/// Bundles the data file and evaluates the Lua expression it was converted into.
#[allow(dead_code)]
fn bundled_value(file_name: &str, content: &str) -> Result<Result<V, String>, String> {
    let code = bundle_data(file_name, content)?;
    let block = Parser::default()
        .parse(&code)
        .unwrap_or_else(|err| panic!("generated code does not parse: {:?}\n{}", err, code));
    println!("{} converted into: {}", file_name, code);
    Ok(eval(&module_expression(&block)))
}

#[test]
fn json5_infinity_and_nan_are_numbers() {
    // `Infinity`, `-Infinity` and `NaN` are numbers of the JSON5 grammar
    let value = bundled_value("data.json5", "{ big: Infinity, small: -Infinity, nan: NaN, ok: 1.5 }")
        .expect("a legal JSON5 document should convert")
        .expect("the generated expression should evaluate");

    assert_eq!(value.field("ok"), V::Num(1.5));
    assert_eq!(
        value.field("big"),
        V::Num(f64::INFINITY),
        "`Infinity` must convert to the infinite double, not to nil"
    );
    assert_eq!(value.field("small"), V::Num(f64::NEG_INFINITY));
    assert!(
        matches!(value.field("nan"), V::Num(n) if n.is_nan()),
        "`NaN` must convert to a NaN, got {:?}",
        value.field("nan")
    );
}

#[test]
fn json_number_overflowing_a_double_is_not_nil() {
    // 1e400 is a number of the JSON grammar: the nearest double is infinity (what
    // JavaScript's JSON.parse gives), refusing the document would be fine too,
    // silently turning the number into `nil` is not
    match bundled_value("data.json", "[1, 1e400, 3]") {
        Err(_refused) => {}
        Ok(value) => {
            let value = value.expect("the generated expression should evaluate");
            assert_eq!(value.index(1), V::Num(1.0));
            assert_eq!(value.index(3), V::Num(3.0));
            assert_eq!(value.index(2), V::Num(f64::INFINITY));
        }
    }
}
