//! C10: the configuration is changed so that a file is now excluded by the root-level
//! `skip_files` filter ("skipped entirely": a fresh run writes nothing for it). The output
//! written for it under the previous configuration stays in the output folder.

use std::collections::BTreeMap;

use darklua_core::{process, Options, Resources};

const CONFIG_BEFORE: &str = "{ rules: ['remove_comments'] }";
const CONFIG_AFTER: &str = "{ rules: ['remove_comments'], skip_files: ['**/b.lua'] }";
const A: &str = "-- a\nreturn 1\n";
const B: &str = "-- b\nreturn 2\n";

fn resources_with(files: &[(&str, &str)]) -> Resources {
    let resources = Resources::from_memory();
    for (path, content) in files {
        resources.write(path, content).unwrap();
    }
    resources
}

fn output_tree(resources: &Resources) -> BTreeMap<String, String> {
    resources
        .walk("out")
        .map(|path| {
            let content = resources.get(&path).unwrap();
            (path.display().to_string(), content)
        })
        .collect()
}

fn options() -> Options {
    Options::new("src").with_output("out")
}

#[test]
fn output_of_a_file_that_the_new_configuration_skips() {
    let resources = resources_with(&[
        (".darklua.json5", CONFIG_BEFORE),
        ("src/a.lua", A),
        ("src/b.lua", B),
        // a foreign file of the output folder
        ("out/notes.txt", "keep me"),
    ]);
    let mut worker_tree = process(&resources, options()).unwrap();
    assert!(worker_tree.collect_errors().is_empty());
    assert_eq!(resources.get("out/b.lua").unwrap(), "\nreturn 2\n");

    // the configuration file is edited
    resources.write(".darklua.json5", CONFIG_AFTER).unwrap();
    worker_tree.source_changed(".darklua.json5");
    worker_tree.process(&resources, options()).unwrap();
    assert!(worker_tree.collect_errors().is_empty());

    let fresh_resources = resources_with(&[
        (".darklua.json5", CONFIG_AFTER),
        ("src/a.lua", A),
        ("src/b.lua", B),
        ("out/notes.txt", "keep me"),
    ]);
    process(&fresh_resources, options())
        .unwrap()
        .result()
        .unwrap();

    pretty_assertions::assert_eq!(output_tree(&resources), output_tree(&fresh_resources));
}
