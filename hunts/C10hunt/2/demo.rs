//! C10: the output of `convert_require` depends on the files that the require calls
//! designate, but the worker does not know it: adding or removing a required file does
//! not regenerate the files that require it.

use std::collections::BTreeMap;

use darklua_core::{process, Options, Resources};

const CONFIG: &str =
    "{ rules: [{ rule: 'convert_require', current: 'path', target: 'roblox' }] }";
const MAIN: &str = "local x = require('./x')\nreturn x\n";
const X: &str = "return 1\n";

fn resources_with(files: &[(&str, &str)]) -> Resources {
    let resources = Resources::from_memory();
    for (path, content) in files {
        resources.write(path, content).unwrap();
    }
    resources
}

fn output_tree(resources: &Resources) -> BTreeMap<String, String> {
    resources
        .walk("out")
        .map(|path| {
            let content = resources.get(&path).unwrap();
            (path.display().to_string(), content)
        })
        .collect()
}

fn options() -> Options {
    Options::new("src").with_output("out")
}

fn fresh_output(files: &[(&str, &str)]) -> BTreeMap<String, String> {
    let resources = resources_with(files);
    process(&resources, options()).unwrap().result().unwrap();
    output_tree(&resources)
}

#[test]
fn adding_the_required_file_regenerates_the_file_that_requires_it() {
    let resources = resources_with(&[(".darklua.json5", CONFIG), ("src/main.lua", MAIN)]);
    let mut worker_tree = process(&resources, options()).unwrap();
    assert!(worker_tree.collect_errors().is_empty());
    // the required file does not exist: the call is left as it is (with a warning)
    assert_eq!(resources.get("out/main.lua").unwrap(), MAIN);

    // `src/x.lua` is created
    resources.write("src/x.lua", X).unwrap();
    worker_tree.source_changed("src/x.lua");
    worker_tree.collect_work(&resources, &options()).unwrap();
    worker_tree.process(&resources, options()).unwrap();
    assert!(worker_tree.collect_errors().is_empty());

    let expected = fresh_output(&[
        (".darklua.json5", CONFIG),
        ("src/main.lua", MAIN),
        ("src/x.lua", X),
    ]);
    assert_eq!(
        expected.get("out/main.lua").unwrap(),
        "local x = require(script.Parent:FindFirstChild('x'))\nreturn x\n"
    );

    pretty_assertions::assert_eq!(output_tree(&resources), expected);
}

#[test]
fn removing_the_required_file_regenerates_the_file_that_requires_it() {
    let resources = resources_with(&[
        (".darklua.json5", CONFIG),
        ("src/main.lua", MAIN),
        ("src/x.lua", X),
    ]);
    let mut worker_tree = process(&resources, options()).unwrap();
    assert!(worker_tree.collect_errors().is_empty());

    // `src/x.lua` is removed
    resources.remove("src/x.lua").unwrap();
    worker_tree.remove_source("src/x.lua");
    worker_tree.process(&resources, options()).unwrap();
    assert!(worker_tree.collect_errors().is_empty());

    let expected = fresh_output(&[(".darklua.json5", CONFIG), ("src/main.lua", MAIN)]);
    assert_eq!(expected.get("out/main.lua").unwrap(), MAIN);

    pretty_assertions::assert_eq!(output_tree(&resources), expected);
}
