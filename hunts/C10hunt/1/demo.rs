//! C10: a file is added that takes precedence in the resolution of a bundled require
//! (`x.luau` is tried before `x.lua`). The bundle entry is not regenerated.

use std::collections::BTreeMap;

use darklua_core::{process, Options, Resources};

const CONFIG: &str = "{ rules: [], bundle: { require_mode: 'path' } }";
const MAIN: &str = "local x = require('./x')\nreturn x\n";
const X_LUA: &str = "return 'from x.lua'\n";
const X_LUAU: &str = "return 'from x.luau'\n";

fn resources_with(files: &[(&str, &str)]) -> Resources {
    let resources = Resources::from_memory();
    for (path, content) in files {
        resources.write(path, content).unwrap();
    }
    resources
}

fn output_tree(resources: &Resources) -> BTreeMap<String, String> {
    resources
        .walk("out")
        .map(|path| {
            let content = resources.get(&path).unwrap();
            (path.display().to_string(), content)
        })
        .collect()
}

fn options() -> Options {
    Options::new("src").with_output("out")
}

#[test]
fn adding_a_file_that_shadows_a_bundled_module_regenerates_the_bundle() {
    // long-lived worker
    let resources = resources_with(&[
        (".darklua.json5", CONFIG),
        ("src/main.lua", MAIN),
        ("src/x.lua", X_LUA),
    ]);
    let mut worker_tree = process(&resources, options()).unwrap();
    assert!(worker_tree.collect_errors().is_empty());
    assert!(resources.get("out/main.lua").unwrap().contains("from x.lua'"));

    // `src/x.luau` is created: report it the way `--watch` does (a creation makes the
    // watcher collect the work again), and also as a change of that path
    resources.write("src/x.luau", X_LUAU).unwrap();
    worker_tree.source_changed("src/x.luau");
    worker_tree.collect_work(&resources, &options()).unwrap();
    worker_tree.process(&resources, options()).unwrap();
    assert!(worker_tree.collect_errors().is_empty());

    // fresh run over the final inputs
    let fresh_resources = resources_with(&[
        (".darklua.json5", CONFIG),
        ("src/main.lua", MAIN),
        ("src/x.lua", X_LUA),
        ("src/x.luau", X_LUAU),
    ]);
    process(&fresh_resources, options())
        .unwrap()
        .result()
        .unwrap();
    // `require('./x')` finds `x.luau` before `x.lua`
    assert!(fresh_resources
        .get("out/main.lua")
        .unwrap()
        .contains("from x.luau'"));

    pretty_assertions::assert_eq!(output_tree(&resources), output_tree(&fresh_resources));
}
