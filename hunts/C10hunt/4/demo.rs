//! C10: a whole directory is removed / replaced (`mv src/data elsewhere`, one event on the
//! directory). It contains a data file that the bundle entry pulls in. The entry is not
//! regenerated.

use std::collections::BTreeMap;

use darklua_core::{process, Options, Resources};

const CONFIG: &str = "{ rules: [], bundle: { require_mode: 'path' } }";
const MAIN: &str = "local data = require('./data/value.json')\nreturn data\n";

fn resources_with(files: &[(&str, &str)]) -> Resources {
    let resources = Resources::from_memory();
    for (path, content) in files {
        resources.write(path, content).unwrap();
    }
    resources
}

fn output_tree(resources: &Resources) -> BTreeMap<String, String> {
    resources
        .walk("out")
        .map(|path| {
            let content = resources.get(&path).unwrap();
            (path.display().to_string(), content)
        })
        .collect()
}

fn options() -> Options {
    Options::new("src").with_output("out")
}

#[test]
fn replacing_a_directory_regenerates_the_bundle_that_uses_a_data_file_of_it() {
    let resources = resources_with(&[
        (".darklua.json5", CONFIG),
        ("src/main.lua", MAIN),
        ("src/data/value.json", "{ \"version\": 1 }"),
    ]);
    let mut worker_tree = process(&resources, options()).unwrap();
    assert!(worker_tree.collect_errors().is_empty());
    assert!(resources.get("out/main.lua").unwrap().contains("version=1"));

    // `mv src/data ../old && mv ../new src/data`: the watcher receives rename events that
    // name the directory only, it calls `remove_source` for it then collects work again
    resources.remove("src/data").unwrap();
    resources
        .write("src/data/value.json", "{ \"version\": 2 }")
        .unwrap();
    worker_tree.remove_source("src/data");
    worker_tree.collect_work(&resources, &options()).unwrap();
    worker_tree.process(&resources, options()).unwrap();
    assert!(worker_tree.collect_errors().is_empty());

    let fresh_resources = resources_with(&[
        (".darklua.json5", CONFIG),
        ("src/main.lua", MAIN),
        ("src/data/value.json", "{ \"version\": 2 }"),
    ]);
    process(&fresh_resources, options())
        .unwrap()
        .result()
        .unwrap();
    assert!(fresh_resources
        .get("out/main.lua")
        .unwrap()
        .contains("version=2"));

    pretty_assertions::assert_eq!(output_tree(&resources), output_tree(&fresh_resources));
}

#[test]
fn removing_a_directory_restarts_the_bundle_that_uses_a_data_file_of_it() {
    let resources = resources_with(&[
        (".darklua.json5", CONFIG),
        ("src/main.lua", MAIN),
        ("src/data/value.json", "{ \"version\": 1 }"),
    ]);
    let mut worker_tree = process(&resources, options()).unwrap();
    assert!(worker_tree.collect_errors().is_empty());

    // the directory is removed
    resources.remove("src/data").unwrap();
    worker_tree.remove_source("src/data");
    worker_tree.process(&resources, options()).unwrap();

    // a fresh run reports that main.lua cannot be bundled anymore
    let fresh_resources = resources_with(&[(".darklua.json5", CONFIG), ("src/main.lua", MAIN)]);
    let fresh_errors = process(&fresh_resources, options())
        .unwrap()
        .collect_errors()
        .len();
    assert_eq!(fresh_errors, 1);

    assert_eq!(
        worker_tree.collect_errors().len(),
        fresh_errors,
        "main.lua requires a file that does not exist anymore"
    );
}
