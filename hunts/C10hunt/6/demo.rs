//! C10: a configuration change that replaces a non-finite number (or `null`) with another
//! one in a rule property is not detected: the files are not regenerated.

use std::collections::BTreeMap;

use darklua_core::{process, Options, Resources};

const SOURCE: &str = "return LIMIT\n";

fn config(value: &str) -> String {
    format!(
        "{{ rules: [{{ rule: 'inject_global_value', identifier: 'LIMIT', value: {} }}] }}",
        value
    )
}

fn resources_with(files: &[(&str, &str)]) -> Resources {
    let resources = Resources::from_memory();
    for (path, content) in files {
        resources.write(path, content).unwrap();
    }
    resources
}

fn output_tree(resources: &Resources) -> BTreeMap<String, String> {
    resources
        .walk("out")
        .map(|path| {
            let content = resources.get(&path).unwrap();
            (path.display().to_string(), content)
        })
        .collect()
}

fn options() -> Options {
    Options::new("src").with_output("out")
}

fn check_configuration_change(before: &str, after: &str) {
    let before = config(before);
    let after = config(after);

    let resources = resources_with(&[(".darklua.json5", &before), ("src/a.lua", SOURCE)]);
    let mut worker_tree = process(&resources, options()).unwrap();
    assert!(worker_tree.collect_errors().is_empty());

    // the configuration file is edited
    resources.write(".darklua.json5", &after).unwrap();
    worker_tree.source_changed(".darklua.json5");
    worker_tree.process(&resources, options()).unwrap();
    assert!(worker_tree.collect_errors().is_empty());

    let fresh_resources = resources_with(&[(".darklua.json5", &after), ("src/a.lua", SOURCE)]);
    process(&fresh_resources, options())
        .unwrap()
        .result()
        .unwrap();

    pretty_assertions::assert_eq!(output_tree(&resources), output_tree(&fresh_resources));
}

#[test]
fn from_infinity_to_negative_infinity() {
    // `return 1/0` becomes `return -1/0`
    check_configuration_change("Infinity", "-Infinity");
}

#[test]
fn from_null_to_infinity() {
    // `return nil` becomes `return 1/0`
    check_configuration_change("null", "Infinity");
}

#[test]
fn from_infinity_to_nan() {
    check_configuration_change("Infinity", "NaN");
}
