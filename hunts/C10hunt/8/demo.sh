#!/bin/sh
# C10: the input contains a symbolic link to a directory (`src/vendor` -> `<abs>/vendor_real`),
# which darklua follows and explicitly watches. Removing ONE file of that directory makes
# the watcher forget EVERY source under the link and delete all their outputs.
#
# exit code: 0 = behaves correctly, 1 = violation, 2 = could not run

if [ -x "./target/debug/darklua" ]; then
    ROOT=$(pwd)
else
    ROOT=$(cd "$(dirname "$0")/../.." && pwd)
fi
BIN=${DARKLUA_BIN:-$ROOT/target/debug/darklua}
[ -x "$BIN" ] || { echo "darklua binary not found at $BIN"; exit 2; }

WORK=$(mktemp -d "${TMPDIR:-/tmp}/c10_found8.XXXXXX") || exit 2
WORK=$(cd "$WORK" && pwd -P)
trap 'kill $WATCH_PID 2>/dev/null; rm -rf "$WORK"' EXIT

mkdir -p "$WORK/src" "$WORK/vendor_real"
cd "$WORK" || exit 2
printf 'return 0 -- main\n' > src/main.lua
printf 'return 1 -- a\n' > vendor_real/a.lua
printf 'return 2 -- b\n' > vendor_real/b.lua
ln -s "$WORK/vendor_real" src/vendor || exit 2
printf '{ rules: ["remove_comments"] }' > .darklua.json5

"$BIN" process src out --watch > "$WORK/log.txt" 2>&1 &
WATCH_PID=$!

# wait for the first pass
i=0
while [ ! -f out/vendor/b.lua ] && [ $i -lt 50 ]; do sleep 0.2; i=$((i + 1)); done
[ -f out/vendor/b.lua ] || { echo "the first pass did not write out/vendor/b.lua"; cat log.txt; exit 2; }
sleep 1

# remove one source of the linked directory
rm vendor_real/a.lua

# the debounce time of the watcher is 400ms: wait up to 6 seconds for the removal of the output
i=0
while [ -f out/vendor/a.lua ] && [ $i -lt 30 ]; do sleep 0.2; i=$((i + 1)); done
sleep 1

kill $WATCH_PID 2>/dev/null
wait $WATCH_PID 2>/dev/null

# fresh run over the final inputs
"$BIN" process src fresh > /dev/null 2>&1 || exit 2

incremental=$(cd out && find . -type f | sort | tr '\n' ' ')
fresh=$(cd fresh && find . -type f | sort | tr '\n' ' ')

if [ "$incremental" = "$fresh" ]; then
    echo "ok: the output of the watcher equals a fresh run ($fresh)"
    exit 0
else
    echo "VIOLATION: after removing vendor_real/a.lua the watcher left"
    echo "  out/   : $incremental"
    echo "while a fresh run writes"
    echo "  fresh/ : $fresh"
    exit 1
fi
