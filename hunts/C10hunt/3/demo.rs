//! C10: the aliases of a `.luaurc` file decide which file a bundled `require('@alias/...')`
//! pulls in, but an edit of the `.luaurc` file does not regenerate the bundle.

use std::collections::BTreeMap;

use darklua_core::{process, Options, Resources};

const CONFIG: &str = "{ rules: [], bundle: { require_mode: 'path' } }";
const MAIN: &str = "local value = require('@lib/value')\nreturn value\n";
const LUAURC_A: &str = "{ \"aliases\": { \"lib\": \"./a\" } }";
const LUAURC_B: &str = "{ \"aliases\": { \"lib\": \"./b\" } }";

fn resources_with(files: &[(&str, &str)]) -> Resources {
    let resources = Resources::from_memory();
    for (path, content) in files {
        resources.write(path, content).unwrap();
    }
    resources
}

fn output_tree(resources: &Resources) -> BTreeMap<String, String> {
    resources
        .walk("out")
        .map(|path| {
            let content = resources.get(&path).unwrap();
            (path.display().to_string(), content)
        })
        .collect()
}

fn options() -> Options {
    Options::new("src").with_output("out")
}

fn project(luaurc: &'static str) -> Vec<(&'static str, &'static str)> {
    vec![
        (".darklua.json5", CONFIG),
        ("src/.luaurc", luaurc),
        ("src/main.lua", MAIN),
        ("src/a/value.lua", "return 'value of a'\n"),
        ("src/b/value.lua", "return 'value of b'\n"),
    ]
}

#[test]
fn editing_the_luaurc_aliases_regenerates_the_bundle() {
    let resources = resources_with(&project(LUAURC_A));
    let mut worker_tree = process(&resources, options()).unwrap();
    assert!(worker_tree.collect_errors().is_empty());
    assert!(resources
        .get("out/main.lua")
        .unwrap()
        .contains("'value of a'"));

    // the alias now designates the other directory
    resources.write("src/.luaurc", LUAURC_B).unwrap();
    worker_tree.source_changed("src/.luaurc");
    worker_tree.process(&resources, options()).unwrap();
    assert!(worker_tree.collect_errors().is_empty());

    let fresh_resources = resources_with(&project(LUAURC_B));
    process(&fresh_resources, options())
        .unwrap()
        .result()
        .unwrap();
    assert!(fresh_resources
        .get("out/main.lua")
        .unwrap()
        .contains("'value of b'"));

    pretty_assertions::assert_eq!(output_tree(&resources), output_tree(&fresh_resources));
}
