#!/bin/sh
# C10: `darklua process <absolute input> <absolute output> --watch` started from a working
# directory that contains the input. An edit of a source is never reprocessed, because the
# watcher strips the working directory from the paths of the events while the work items
# are keyed by the (absolute) paths given on the command line.
#
# exit code: 0 = behaves correctly, 1 = violation, 2 = could not run

if [ -x "./target/debug/darklua" ]; then
    ROOT=$(pwd)
else
    ROOT=$(cd "$(dirname "$0")/../.." && pwd)
fi
BIN=${DARKLUA_BIN:-$ROOT/target/debug/darklua}
[ -x "$BIN" ] || { echo "darklua binary not found at $BIN"; exit 2; }

WORK=$(mktemp -d "${TMPDIR:-/tmp}/c10_found7.XXXXXX") || exit 2
# the watcher compares paths with the current directory as the kernel reports it
WORK=$(cd "$WORK" && pwd -P)
trap 'kill $WATCH_PID 2>/dev/null; rm -rf "$WORK"' EXIT

mkdir -p "$WORK/src"
cd "$WORK" || exit 2
printf 'return 1 -- one\n' > src/a.lua
printf '{ rules: ["remove_comments"] }' > .darklua.json5

"$BIN" process "$WORK/src" "$WORK/out" --watch > "$WORK/log.txt" 2>&1 &
WATCH_PID=$!

# wait for the first pass
i=0
while [ ! -f out/a.lua ] && [ $i -lt 50 ]; do sleep 0.2; i=$((i + 1)); done
[ -f out/a.lua ] || { echo "the first pass did not write out/a.lua"; cat log.txt; exit 2; }
sleep 1

# edit the source
printf 'return 2 -- two\n' > src/a.lua

# the debounce time of the watcher is 400ms: wait up to 6 seconds for the new output
i=0
while [ $i -lt 30 ]; do
    if grep -q "return 2" out/a.lua; then break; fi
    sleep 0.2
    i=$((i + 1))
done

kill $WATCH_PID 2>/dev/null
wait $WATCH_PID 2>/dev/null

# fresh run over the final inputs
"$BIN" process "$WORK/src" "$WORK/fresh" > /dev/null 2>&1 || exit 2

if cmp -s out/a.lua fresh/a.lua; then
    echo "ok: the output of the watcher equals a fresh run"
    exit 0
else
    echo "VIOLATION: after editing src/a.lua the watcher left"
    echo "  out/a.lua   = $(cat out/a.lua)"
    echo "while a fresh run writes"
    echo "  fresh/a.lua = $(cat fresh/a.lua)"
    exit 1
fi
