use darklua_core::{process, Options, Resources};

fn marker(path: &str) -> String {
    format!("return '<<{}>>'", path)
}

fn extract_markers(text: &str) -> Vec<String> {
    let mut res = Vec::new();
    let mut rest = text;
    while let Some(start) = rest.find("<<") {
        let after = &rest[start + 2..];
        if let Some(end) = after.find(">>") {
            res.push(after[..end].to_owned());
            rest = &after[end + 2..];
        } else {
            break;
        }
    }
    res
}

fn run(resources: &Resources, config: &str, from: &str) -> Result<String, String> {
    resources.write(".darklua.json", config).unwrap();
    let result = process(resources, Options::new(from).with_output("out/out.lua"))
        .map_err(|e| e.to_string())?
        .result();
    match result {
        Ok(()) => Ok(resources.get("out/out.lua").unwrap()),
        Err(errs) => Err(errs
            .into_iter()
            .map(|e| e.to_string())
            .collect::<Vec<_>>()
            .join("\n")),
    }
}

fn make_resources(files: &[&str], extra: &[(&str, &str)], from: &str, code: &str) -> Resources {
    let resources = Resources::from_memory();
    for file in files {
        resources.write(file, &marker(file)).unwrap();
    }
    for (file, content) in extra {
        resources.write(file, content).unwrap();
    }
    resources.write(from, code).unwrap();
    resources
}

/// Bundles `from` with the given require mode: every module returns a string naming its own
/// file, so the markers found in the bundle are the files the requires resolved to.
fn resolve(
    files: &[&str],
    extra: &[(&str, &str)],
    mode: &str,
    from: &str,
    code: &str,
) -> Result<Vec<String>, String> {
    let resources = make_resources(files, extra, from, code);
    let config = format!(
        "{{ \"rules\": [], \"generator\": \"dense\", \"bundle\": {{ \"require_mode\": {} }} }}",
        mode
    );
    run(&resources, &config, from).map(|out| extract_markers(&out))
}

/// Applies convert_require to `from` and returns the new code.
#[allow(dead_code)]
fn convert(
    files: &[&str],
    extra: &[(&str, &str)],
    current: &str,
    target: &str,
    from: &str,
    code: &str,
) -> Result<String, String> {
    let resources = make_resources(files, extra, from, code);
    let config = format!(
        "{{ \"generator\": \"dense\", \"rules\": [{{ \"rule\": \"convert_require\", \"current\": {}, \"target\": {} }}] }}",
        current, target
    );
    run(&resources, &config, from)
}

// The documented candidates for `./example` are: the path, path + `.luau`, path + `.lua`,
// path/init, path/init.luau, path/init.lua. A folder can be named `foo.lua` (or `v1.luau`...):
// the given path is then not a file, and the module-folder candidates must be tried.
#[test]
fn path_mode_tries_the_module_folder_file_of_a_folder_named_with_a_lua_extension() {
    // reference: same layout with another extension-looking folder name
    let reference = resolve(
        &["src/foo.d/init.lua"],
        &[],
        r#""path""#,
        "src/main.lua",
        "return require('./foo.d')",
    );
    assert_eq!(reference, Ok(vec!["src/foo.d/init.lua".to_owned()]));

    let found = resolve(
        &["src/foo.lua/init.lua"],
        &[],
        r#""path""#,
        "src/main.lua",
        "return require('./foo.lua')",
    );
    assert_eq!(found, Ok(vec!["src/foo.lua/init.lua".to_owned()]));
}

#[test]
fn luau_mode_tries_the_module_folder_file_of_a_folder_named_with_a_luau_extension() {
    let found = resolve(
        &["src/v1.luau/init.luau"],
        &[],
        r#""luau""#,
        "src/main.luau",
        "return require('./v1.luau')",
    );
    assert_eq!(found, Ok(vec!["src/v1.luau/init.luau".to_owned()]));
}
