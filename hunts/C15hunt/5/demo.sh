#!/bin/sh
# The nearest `.luaurc` of a file is in a parent of the working directory (a monorepo:
# the `.luaurc` is at the root, darklua runs inside a package).
DARKLUA="${DARKLUA:-$(pwd)/target/debug/darklua}"
if [ ! -x "$DARKLUA" ]; then
    DARKLUA="$(cd "$(dirname "$0")/../.." && pwd)/target/debug/darklua"
fi

WORK="$(mktemp -d)"
trap 'rm -rf "$WORK"' EXIT
cd "$WORK" || exit 2
mkdir -p repo/packages/app/src repo/shared
cd repo || exit 2
echo '{ "aliases": { "shared": "./shared" } }' > .luaurc
echo "return 'SHARED_MODULE'" > shared/x.luau
echo "return require('@shared/x')" > packages/app/src/main.luau
echo '{ "generator": "dense", "rules": [], "bundle": { "require_mode": "luau" } }' > packages/app/.darklua.json

# from the root of the repository: the .luaurc is found
"$DARKLUA" process --config packages/app/.darklua.json packages/app/src/main.luau from_root.luau > log_root.txt 2>&1
if ! grep -q SHARED_MODULE from_root.luau 2>/dev/null; then
    echo "unexpected: does not resolve from the repository root"
    cat log_root.txt
    exit 1
fi
echo "from the repository root: @shared/x resolves to shared/x.luau"

# the same file, the same configuration, from the package directory
cd packages/app || exit 2
"$DARKLUA" process src/main.luau from_package.luau > log_package.txt 2>&1
if grep -q SHARED_MODULE from_package.luau 2>/dev/null; then
    echo "from packages/app: @shared/x resolves to shared/x.luau"
    exit 0
else
    echo "from packages/app: @shared/x does NOT resolve (the nearest .luaurc, ../../.luaurc, is not found):"
    cat log_package.txt
    exit 1
fi
