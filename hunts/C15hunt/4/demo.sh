#!/bin/sh
# convert_require with an input given as an ABSOLUTE path while the required file is found
# through a source whose location is relative (configuration file in the working directory):
# the generated require is a path relative to the working directory without `./` prefix,
# that the target (path) mode reads as `<source name>/...`.
DARKLUA="${DARKLUA:-$(pwd)/target/debug/darklua}"
if [ ! -x "$DARKLUA" ]; then
    DARKLUA="$(cd "$(dirname "$0")/../.." && pwd)/target/debug/darklua"
fi

WORK="$(mktemp -d)"
trap 'rm -rf "$WORK"' EXIT
cd "$WORK" || exit 2
mkdir -p src Packages
echo "return 'X_MODULE'" > Packages/x.lua
printf "local x = require('@pkg/x')\nreturn x\n" > src/main.lua

CONVERT='{ "generator": "dense", "rules": [ { "rule": "convert_require", "current": { "name": "path", "sources": { "@pkg": "./Packages" } }, "target": "path" } ] }'
BUNDLE='{ "generator": "dense", "rules": [], "bundle": { "require_mode": "path" } }'

check() {
    # $1: label, $2: input path given to darklua
    echo "$CONVERT" > .darklua.json
    "$DARKLUA" process "$2" "converted/main.lua" > "log_$1.txt" 2>&1 || { cat "log_$1.txt"; return 2; }
    echo "[$1] converted: $(cat converted/main.lua)"
    # put the converted file where the original was and resolve its require in the target mode
    mkdir -p "check_$1/src"
    cp -r Packages "check_$1/Packages"
    cp converted/main.lua "check_$1/src/main.lua"
    echo "$BUNDLE" > "check_$1/.darklua.json"
    (cd "check_$1" && "$DARKLUA" process src/main.lua bundled.lua > log.txt 2>&1)
    if grep -q X_MODULE "check_$1/bundled.lua" 2>/dev/null; then
        echo "[$1] the converted require resolves to Packages/x.lua"
        return 0
    else
        echo "[$1] the converted require does NOT resolve in the path mode:"
        cat "check_$1/log.txt"
        return 1
    fi
}

check relative "src/main.lua" || { echo "unexpected: relative input fails"; exit 1; }
check absolute "$WORK/src/main.lua" || exit 1
exit 0
