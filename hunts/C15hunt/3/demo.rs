use darklua_core::{process, Options, Resources};

fn marker(path: &str) -> String {
    format!("return '<<{}>>'", path)
}

fn extract_markers(text: &str) -> Vec<String> {
    let mut res = Vec::new();
    let mut rest = text;
    while let Some(start) = rest.find("<<") {
        let after = &rest[start + 2..];
        if let Some(end) = after.find(">>") {
            res.push(after[..end].to_owned());
            rest = &after[end + 2..];
        } else {
            break;
        }
    }
    res
}

fn run(resources: &Resources, config: &str, from: &str) -> Result<String, String> {
    resources.write(".darklua.json", config).unwrap();
    let result = process(resources, Options::new(from).with_output("out/out.lua"))
        .map_err(|e| e.to_string())?
        .result();
    match result {
        Ok(()) => Ok(resources.get("out/out.lua").unwrap()),
        Err(errs) => Err(errs
            .into_iter()
            .map(|e| e.to_string())
            .collect::<Vec<_>>()
            .join("\n")),
    }
}

fn make_resources(files: &[&str], extra: &[(&str, &str)], from: &str, code: &str) -> Resources {
    let resources = Resources::from_memory();
    for file in files {
        resources.write(file, &marker(file)).unwrap();
    }
    for (file, content) in extra {
        resources.write(file, content).unwrap();
    }
    resources.write(from, code).unwrap();
    resources
}

/// Bundles `from` with the given require mode: every module returns a string naming its own
/// file, so the markers found in the bundle are the files the requires resolved to.
fn resolve(
    files: &[&str],
    extra: &[(&str, &str)],
    mode: &str,
    from: &str,
    code: &str,
) -> Result<Vec<String>, String> {
    let resources = make_resources(files, extra, from, code);
    let config = format!(
        "{{ \"rules\": [], \"generator\": \"dense\", \"bundle\": {{ \"require_mode\": {} }} }}",
        mode
    );
    run(&resources, &config, from).map(|out| extract_markers(&out))
}

/// Applies convert_require to `from` and returns the new code.
#[allow(dead_code)]
fn convert(
    files: &[&str],
    extra: &[(&str, &str)],
    current: &str,
    target: &str,
    from: &str,
    code: &str,
) -> Result<String, String> {
    let resources = make_resources(files, extra, from, code);
    let config = format!(
        "{{ \"generator\": \"dense\", \"rules\": [{{ \"rule\": \"convert_require\", \"current\": {}, \"target\": {} }}] }}",
        current, target
    );
    run(&resources, &config, from)
}

// `@pkg` designates `vendor/Packages`: `@pkg/../shared/x` is `vendor/shared/x`
// (a source-prefixed require with a redundant `..` segment).
const FILES: [&str; 2] = ["vendor/shared/x.luau", "shared/x.luau"];
const FROM: &str = "src/main.luau";
const CODE: &str = "return require('@pkg/../shared/x')";

#[test]
fn path_mode_applies_the_parent_segment_after_the_source() {
    let mode = r#"{ "name": "path", "sources": { "@pkg": "./vendor/Packages" } }"#;

    // reference: the same location without the redundant segment
    let reference = resolve(
        &FILES,
        &[],
        r#"{ "name": "path", "sources": { "@vendor": "./vendor" } }"#,
        FROM,
        "return require('@vendor/shared/x')",
    );
    assert_eq!(reference, Ok(vec!["vendor/shared/x.luau".to_owned()]));

    assert_eq!(
        resolve(&FILES, &[], mode, FROM, CODE),
        Ok(vec!["vendor/shared/x.luau".to_owned()])
    );
}

#[test]
fn luau_mode_applies_the_parent_segment_after_the_alias() {
    let mode = r#"{ "name": "luau", "aliases": { "@pkg": "./vendor/Packages" } }"#;

    assert_eq!(
        resolve(&FILES, &[], mode, FROM, CODE),
        Ok(vec!["vendor/shared/x.luau".to_owned()])
    );
}
