use darklua_core::{process, Options, Resources};

fn marker(path: &str) -> String {
    format!("return '<<{}>>'", path)
}

fn extract_markers(text: &str) -> Vec<String> {
    let mut res = Vec::new();
    let mut rest = text;
    while let Some(start) = rest.find("<<") {
        let after = &rest[start + 2..];
        if let Some(end) = after.find(">>") {
            res.push(after[..end].to_owned());
            rest = &after[end + 2..];
        } else {
            break;
        }
    }
    res
}

fn run(resources: &Resources, config: &str, from: &str) -> Result<String, String> {
    resources.write(".darklua.json", config).unwrap();
    let result = process(resources, Options::new(from).with_output("out/out.lua"))
        .map_err(|e| e.to_string())?
        .result();
    match result {
        Ok(()) => Ok(resources.get("out/out.lua").unwrap()),
        Err(errs) => Err(errs
            .into_iter()
            .map(|e| e.to_string())
            .collect::<Vec<_>>()
            .join("\n")),
    }
}

fn make_resources(files: &[&str], extra: &[(&str, &str)], from: &str, code: &str) -> Resources {
    let resources = Resources::from_memory();
    for file in files {
        resources.write(file, &marker(file)).unwrap();
    }
    for (file, content) in extra {
        resources.write(file, content).unwrap();
    }
    resources.write(from, code).unwrap();
    resources
}

/// Bundles `from` with the given require mode: every module returns a string naming its own
/// file, so the markers found in the bundle are the files the requires resolved to.
fn resolve(
    files: &[&str],
    extra: &[(&str, &str)],
    mode: &str,
    from: &str,
    code: &str,
) -> Result<Vec<String>, String> {
    let resources = make_resources(files, extra, from, code);
    let config = format!(
        "{{ \"rules\": [], \"generator\": \"dense\", \"bundle\": {{ \"require_mode\": {} }} }}",
        mode
    );
    run(&resources, &config, from).map(|out| extract_markers(&out))
}

/// Applies convert_require to `from` and returns the new code.
#[allow(dead_code)]
fn convert(
    files: &[&str],
    extra: &[(&str, &str)],
    current: &str,
    target: &str,
    from: &str,
    code: &str,
) -> Result<String, String> {
    let resources = make_resources(files, extra, from, code);
    let config = format!(
        "{{ \"generator\": \"dense\", \"rules\": [{{ \"rule\": \"convert_require\", \"current\": {}, \"target\": {} }}] }}",
        current, target
    );
    run(&resources, &config, from)
}

// `vendor/lib` is a project with its own `.luaurc`: its `@dep` alias designates
// `vendor/lib/deps`. The root `.luaurc` also has a `@dep` alias, for `rootdeps`.
// "darklua will attempt to find the nearest `.luaurc` configuration file to each file it
// processes": a require written in `vendor/lib/a.luau` must use the aliases of
// `vendor/lib/.luaurc`.
#[test]
fn bundling_uses_the_luaurc_nearest_to_the_requiring_module() {
    let files = ["vendor/lib/deps/x.luau", "rootdeps/x.luau"];
    let extra = [
        (".luaurc", r#"{ "aliases": { "dep": "./rootdeps" } }"#),
        ("vendor/lib/.luaurc", r#"{ "aliases": { "dep": "./deps" } }"#),
        ("vendor/lib/a.luau", "return require('@dep/x')"),
    ];

    // sanity check: bundling from vendor/lib/a.luau itself finds vendor/lib/deps/x.luau
    let direct = resolve(
        &files,
        &extra[..2],
        r#""luau""#,
        "vendor/lib/a.luau",
        "return require('@dep/x')",
    );
    assert_eq!(direct, Ok(vec!["vendor/lib/deps/x.luau".to_owned()]));

    // the same require, in the same file, reached through another module
    let nested = resolve(
        &files,
        &extra,
        r#""luau""#,
        "src/main.luau",
        "return require('../vendor/lib/a')",
    );
    assert_eq!(
        nested,
        Ok(vec!["vendor/lib/deps/x.luau".to_owned()]),
        "`@dep/x` in vendor/lib/a.luau must resolve with the aliases of vendor/lib/.luaurc"
    );
}

// same thing in the path mode, without any alias at the root: the require does not resolve
#[test]
fn bundling_in_path_mode_uses_the_luaurc_nearest_to_the_requiring_module() {
    let files = ["vendor/lib/deps/x.luau"];
    let extra = [
        ("vendor/lib/.luaurc", r#"{ "aliases": { "dep": "./deps" } }"#),
        ("vendor/lib/a.luau", "return require('@dep/x')"),
    ];
    let nested = resolve(
        &files,
        &extra,
        r#""path""#,
        "src/main.luau",
        "return require('../vendor/lib/a')",
    );
    assert_eq!(nested, Ok(vec!["vendor/lib/deps/x.luau".to_owned()]));
}
