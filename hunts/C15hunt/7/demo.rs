use darklua_core::{process, Options, Resources};

fn marker(path: &str) -> String {
    format!("return '<<{}>>'", path)
}

fn extract_markers(text: &str) -> Vec<String> {
    let mut res = Vec::new();
    let mut rest = text;
    while let Some(start) = rest.find("<<") {
        let after = &rest[start + 2..];
        if let Some(end) = after.find(">>") {
            res.push(after[..end].to_owned());
            rest = &after[end + 2..];
        } else {
            break;
        }
    }
    res
}

fn run(resources: &Resources, config: &str, from: &str) -> Result<String, String> {
    resources.write(".darklua.json", config).unwrap();
    let result = process(resources, Options::new(from).with_output("out/out.lua"))
        .map_err(|e| e.to_string())?
        .result();
    match result {
        Ok(()) => Ok(resources.get("out/out.lua").unwrap()),
        Err(errs) => Err(errs
            .into_iter()
            .map(|e| e.to_string())
            .collect::<Vec<_>>()
            .join("\n")),
    }
}

fn make_resources(files: &[&str], extra: &[(&str, &str)], from: &str, code: &str) -> Resources {
    let resources = Resources::from_memory();
    for file in files {
        resources.write(file, &marker(file)).unwrap();
    }
    for (file, content) in extra {
        resources.write(file, content).unwrap();
    }
    resources.write(from, code).unwrap();
    resources
}

/// Bundles `from` with the given require mode: every module returns a string naming its own
/// file, so the markers found in the bundle are the files the requires resolved to.
fn resolve(
    files: &[&str],
    extra: &[(&str, &str)],
    mode: &str,
    from: &str,
    code: &str,
) -> Result<Vec<String>, String> {
    let resources = make_resources(files, extra, from, code);
    let config = format!(
        "{{ \"rules\": [], \"generator\": \"dense\", \"bundle\": {{ \"require_mode\": {} }} }}",
        mode
    );
    run(&resources, &config, from).map(|out| extract_markers(&out))
}

/// Applies convert_require to `from` and returns the new code.
#[allow(dead_code)]
fn convert(
    files: &[&str],
    extra: &[(&str, &str)],
    current: &str,
    target: &str,
    from: &str,
    code: &str,
) -> Result<String, String> {
    let resources = make_resources(files, extra, from, code);
    let config = format!(
        "{{ \"generator\": \"dense\", \"rules\": [{{ \"rule\": \"convert_require\", \"current\": {}, \"target\": {} }}] }}",
        current, target
    );
    run(&resources, &config, from)
}

// path-require-mode documentation, "Luau Configuration Files": "Before looking at the sources
// value, darklua will attempt to find the nearest `.luaurc` configuration file to each file it
// processes. If it finds one, it will load the aliases." (the luau mode page has the same
// sentence for its `aliases`)
const FILES: [&str; 2] = ["Packages/x.luau", "FromLuaurc/x.luau"];
const LUAURC: (&str, &str) = (".luaurc", r#"{ "aliases": { "pkg": "./FromLuaurc" } }"#);
const FROM: &str = "src/main.luau";
const CODE: &str = "return require('@pkg/x')";

#[test]
fn path_mode_looks_at_the_luaurc_aliases_before_the_sources() {
    // the luau mode, documented with the same sentence, gives the precedence to the .luaurc
    let luau = resolve(
        &FILES,
        &[LUAURC],
        r#"{ "name": "luau", "aliases": { "@pkg": "./Packages" } }"#,
        FROM,
        CODE,
    );
    assert_eq!(luau, Ok(vec!["FromLuaurc/x.luau".to_owned()]));

    let path = resolve(
        &FILES,
        &[LUAURC],
        r#"{ "name": "path", "sources": { "@pkg": "./Packages" } }"#,
        FROM,
        CODE,
    );
    assert_eq!(path, Ok(vec!["FromLuaurc/x.luau".to_owned()]));
}
