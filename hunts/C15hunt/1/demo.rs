use darklua_core::{process, Options, Resources};

fn marker(path: &str) -> String {
    format!("return '<<{}>>'", path)
}

fn extract_markers(text: &str) -> Vec<String> {
    let mut res = Vec::new();
    let mut rest = text;
    while let Some(start) = rest.find("<<") {
        let after = &rest[start + 2..];
        if let Some(end) = after.find(">>") {
            res.push(after[..end].to_owned());
            rest = &after[end + 2..];
        } else {
            break;
        }
    }
    res
}

fn run(resources: &Resources, config: &str, from: &str) -> Result<String, String> {
    resources.write(".darklua.json", config).unwrap();
    let result = process(resources, Options::new(from).with_output("out/out.lua"))
        .map_err(|e| e.to_string())?
        .result();
    match result {
        Ok(()) => Ok(resources.get("out/out.lua").unwrap()),
        Err(errs) => Err(errs
            .into_iter()
            .map(|e| e.to_string())
            .collect::<Vec<_>>()
            .join("\n")),
    }
}

fn make_resources(files: &[&str], extra: &[(&str, &str)], from: &str, code: &str) -> Resources {
    let resources = Resources::from_memory();
    for file in files {
        resources.write(file, &marker(file)).unwrap();
    }
    for (file, content) in extra {
        resources.write(file, content).unwrap();
    }
    resources.write(from, code).unwrap();
    resources
}

/// Bundles `from` with the given require mode: every module returns a string naming its own
/// file, so the markers found in the bundle are the files the requires resolved to.
fn resolve(
    files: &[&str],
    extra: &[(&str, &str)],
    mode: &str,
    from: &str,
    code: &str,
) -> Result<Vec<String>, String> {
    let resources = make_resources(files, extra, from, code);
    let config = format!(
        "{{ \"rules\": [], \"generator\": \"dense\", \"bundle\": {{ \"require_mode\": {} }} }}",
        mode
    );
    run(&resources, &config, from).map(|out| extract_markers(&out))
}

/// Applies convert_require to `from` and returns the new code.
#[allow(dead_code)]
fn convert(
    files: &[&str],
    extra: &[(&str, &str)],
    current: &str,
    target: &str,
    from: &str,
    code: &str,
) -> Result<String, String> {
    let resources = make_resources(files, extra, from, code);
    let config = format!(
        "{{ \"generator\": \"dense\", \"rules\": [{{ \"rule\": \"convert_require\", \"current\": {}, \"target\": {} }}] }}",
        current, target
    );
    run(&resources, &config, from)
}

// A monorepo: the root `.luaurc` maps `@pkg` to `./Packages`, and the darklua configuration
// (at the root) declares the luau alias `@pkg` -> `./Packages` too. The nested project
// `vendor/lib` has its own `.luaurc` where `@pkg` designates `vendor/lib/Packages`.
// In the luau mode the aliases of the nearest `.luaurc` win over the configured ones.
#[test]
fn convert_require_to_luau_does_not_use_an_alias_shadowed_by_the_luaurc() {
    let files = ["Packages/x.luau", "vendor/lib/Packages/x.luau"];
    let extra = [
        (".luaurc", r#"{ "aliases": { "pkg": "./Packages" } }"#),
        ("vendor/lib/.luaurc", r#"{ "aliases": { "pkg": "./Packages" } }"#),
    ];
    let current = r#""path""#;
    let target = r#"{ "name": "luau", "aliases": { "@pkg": "./Packages" } }"#;
    let from = "vendor/lib/src/main.luau";
    let code = "return require('../../../Packages/x')";

    let before = resolve(&files, &extra, current, from, code).expect("resolves in path mode");
    assert_eq!(before, vec!["Packages/x.luau".to_owned()]);

    let converted = convert(&files, &extra, current, target, from, code).expect("converts");
    let after = resolve(&files, &extra, target, from, &converted);

    assert_eq!(
        after,
        Ok(before),
        "the converted code `{}` must resolve (luau mode) to the file the original resolved to",
        converted
    );
}
