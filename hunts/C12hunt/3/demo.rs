// C12: a text where an `if` expression is cut short (`if` keyword followed by the end of the
// file, `)`, `end`, ...) is accepted by the parser without any error; the tree silently misses
// the expression (or the whole statement) and retain_lines can write text that does not parse.
use std::path::Path;

use darklua_core::{Options, Parser, Resources};

fn process(code: &str, generator: &str) -> String {
    let resources = Resources::from_memory();
    resources.write("src/main.lua", code).unwrap();
    resources
        .write(
            ".darklua.json",
            &format!("{{ generator: '{}', rules: [] }}", generator),
        )
        .unwrap();
    darklua_core::process(
        &resources,
        Options::new(Path::new("src/main.lua")).with_output("out/main.lua"),
    )
    .expect("process should not fail to start")
    .result()
    .expect("no error expected since the parser accepted the text");
    resources.get("out/main.lua").unwrap()
}

#[test]
fn text_with_an_unfinished_if_expression() {
    let inputs = [
        "repeat until if",
        "x = {if",
        "return if a then 1 else",
        "f(if)",
        "do return if\nend print(1)",
        "while if a then 1 else\ndo print(1) end",
    ];
    let mut failures = Vec::new();

    for code in inputs {
        if Parser::default().parse(code).is_err() {
            // correct: the text is not valid Lua/Luau
            continue;
        }
        for generator in ["retain_lines", "dense", "readable"] {
            let output = process(code, generator);
            if let Err(err) = Parser::default().parse(&output) {
                failures.push(format!(
                    "{:?} was accepted by the parser and the {} generator wrote {:?} which does not parse: {}",
                    code, generator, output, err
                ));
            } else if generator == "retain_lines" && output.trim() != code.trim() {
                failures.push(format!(
                    "{:?} was accepted by the parser and retain_lines (without rules) wrote {:?}",
                    code, output
                ));
            }
        }
    }

    assert!(failures.is_empty(), "\n{}", failures.join("\n"));
}
