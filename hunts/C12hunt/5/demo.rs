// C12: a script starting with a `#!` line is accepted by the parser (the dense and readable
// generators process it), but the default configuration (retain_lines generator, which parses
// with token preservation) fails on the very same text with an internal conversion error.
use std::path::Path;

use darklua_core::{Options, Parser, Resources};

const CODE: &str = "#!/usr/bin/env lua\nprint('hello')\n";

fn process(generator: &str) -> Result<String, String> {
    let resources = Resources::from_memory();
    resources.write("src/main.lua", CODE).unwrap();
    resources
        .write(
            ".darklua.json",
            &format!("{{ generator: '{}', rules: [] }}", generator),
        )
        .unwrap();
    darklua_core::process(
        &resources,
        Options::new(Path::new("src/main.lua")).with_output("out/main.lua"),
    )
    .map_err(|err| err.to_string())?
    .result()
    .map_err(|errors| {
        errors
            .iter()
            .map(|err| err.to_string())
            .collect::<Vec<_>>()
            .join("\n")
    })?;
    Ok(resources.get("out/main.lua").unwrap())
}

#[test]
fn text_that_parses_is_processed_by_every_generator() {
    // the text parses
    Parser::default()
        .parse(CODE)
        .expect("a script with a shebang line is accepted by the parser");
    // so does it with the two generators that do not need tokens
    for generator in ["dense", "readable"] {
        let output = process(generator).expect("dense and readable generators succeed");
        Parser::default().parse(&output).expect("output parses");
    }

    // the same text with the default generator
    match process("retain_lines") {
        Ok(output) => {
            Parser::default().parse(&output).expect("output parses");
        }
        Err(err) => panic!(
            "the text parses but the retain_lines generator configuration fails with: {}",
            err
        ),
    }
}

#[test]
fn both_parser_modes_agree() {
    let without_tokens = Parser::default().parse(CODE).is_ok();
    let with_tokens = Parser::default().preserve_tokens().parse(CODE).is_ok();
    assert_eq!(
        without_tokens, with_tokens,
        "the same text must either parse or not parse, whatever the generator needs"
    );
}
