// C12: the bundle configuration accepts any string as `modules_identifier`. A value that is
// not a Lua identifier makes darklua write output that does not parse, and an empty or
// non-ASCII value makes the retain_lines generator panic (the process aborts, no error value).
use std::panic::{catch_unwind, AssertUnwindSafe};
use std::path::Path;

use darklua_core::{Options, Parser, Resources};

fn bundle(modules_identifier: &str, generator: &str) -> Result<String, String> {
    let resources = Resources::from_memory();
    resources
        .write("src/main.lua", "local b = require('./b')\nreturn b")
        .unwrap();
    resources.write("src/b.lua", "return 1").unwrap();
    resources
        .write(
            ".darklua.json",
            &format!(
                "{{ generator: '{}', bundle: {{ require_mode: 'path', modules_identifier: '{}' }}, rules: [] }}",
                generator, modules_identifier
            ),
        )
        .unwrap();

    let result = catch_unwind(AssertUnwindSafe(|| {
        darklua_core::process(
            &resources,
            Options::new(Path::new("src/main.lua")).with_output("out/main.lua"),
        )
    }))
    .map_err(|payload| {
        format!(
            "darklua panicked: {}",
            payload
                .downcast_ref::<&str>()
                .map(|message| message.to_string())
                .or_else(|| payload.downcast_ref::<String>().cloned())
                .unwrap_or_default()
        )
    })?;

    match result {
        // refusing the configuration with an error value is a correct outcome
        Err(_) => Ok("return nil".to_owned()),
        Ok(process_result) => match process_result.result() {
            Err(_) => Ok("return nil".to_owned()),
            Ok(()) => Ok(resources.get("out/main.lua").unwrap()),
        },
    }
}

#[test]
fn bundle_modules_identifier_must_give_parsable_output_or_an_error() {
    let mut failures = Vec::new();

    for identifier in ["end", "a b", "1x", "a.b", "", "\u{e9}"] {
        for generator in ["retain_lines", "dense", "readable"] {
            match bundle(identifier, generator) {
                Err(panic_message) => failures.push(format!(
                    "modules_identifier `{}` with {}: {}",
                    identifier, generator, panic_message
                )),
                Ok(output) => {
                    if let Err(err) = Parser::default().parse(&output) {
                        failures.push(format!(
                            "modules_identifier `{}` with {}: output does not parse ({}):\n{}",
                            identifier,
                            generator,
                            err.to_string().lines().next().unwrap_or(""),
                            output
                        ));
                    }
                }
            }
        }
    }

    assert!(failures.is_empty(), "\n{}", failures.join("\n\n"));
}
