#!/bin/bash
# C12: a long *flat* call chain (no syntactic nesting at all) makes darklua abort with a
# native stack overflow instead of returning a value / writing the other files of the batch.
# Usage: found/1/demo.sh   (uses $DARKLUA or /tmp/wt_C12hunt/target/debug/darklua)
BIN="${DARKLUA:-/tmp/wt_C12hunt/target/debug/darklua}"
WORK="$(mktemp -d)"
trap 'rm -rf "$WORK"' EXIT
mkdir -p "$WORK/src"
printf 'return 1\n' > "$WORK/src/zz_good.lua"
# `return f()()()...()` with 100000 calls: 200 KB, nesting depth 0
python3 - "$WORK/src/chain.lua" <<'PY'
import sys
open(sys.argv[1], 'w').write('return f' + '()' * 100000 + '\n')
PY
fail=0
for generator in retain_lines dense readable; do
    rm -rf "$WORK/out"
    printf '{ generator: "%s", rules: [] }' "$generator" > "$WORK/config.json5"
    (cd "$WORK" && "$BIN" process -c config.json5 src out > "$WORK/log.txt" 2>&1)
    code=$?
    echo "generator=$generator exit code=$code"
    tail -n 2 "$WORK/log.txt"
    # expectation: darklua terminates normally (0 = success, 1 = errors reported as values)
    if [ "$code" -ne 0 ] && [ "$code" -ne 1 ]; then
        echo "FAIL: darklua was killed (exit code $code) instead of finishing the batch"
        fail=1
    fi
    if [ ! -f "$WORK/out/zz_good.lua" ]; then
        echo "FAIL: the other file of the batch (zz_good.lua) was not written"
        fail=1
    fi
done
exit $fail
