// C12: a source text truncated where a type is expected (after `::`, `:`, `->`, `=` of a type
// declaration, `<<`...) is accepted by the parser (no error) and the pipeline then writes text
// that does not parse (or silently loses the statement).
use std::path::Path;

use darklua_core::{Options, Parser, Resources};

fn process(code: &str, generator: &str) -> String {
    let resources = Resources::from_memory();
    resources.write("src/main.lua", code).unwrap();
    resources
        .write(
            ".darklua.json",
            &format!("{{ generator: '{}', rules: [] }}", generator),
        )
        .unwrap();
    darklua_core::process(
        &resources,
        Options::new(Path::new("src/main.lua")).with_output("out/main.lua"),
    )
    .expect("process should not fail to start")
    .result()
    .expect("no error expected since the parser accepted the text");
    resources.get("out/main.lua").unwrap()
}

#[test]
fn text_truncated_in_a_type_annotation() {
    let truncated_inputs = [
        "local e = { f = 1 ::",
        "return function(... :",
        "function fn<T>():",
        "local i = `{a ::",
        "function f(...:(",
        "return a ::",
        "local y = f<<",
        "type T = {",
        // not only at the end of the file: the missing type is followed by a keyword
        "local t = { a = 1 ::\nlocal y = 2",
        "while x ::\ndo print(1) end",
    ];
    let mut failures = Vec::new();

    for code in truncated_inputs {
        if Parser::default().parse(code).is_err() {
            // correct: a truncated text is reported as a parse error
            continue;
        }
        for generator in ["retain_lines", "dense", "readable"] {
            let output = process(code, generator);
            if let Err(err) = Parser::default().parse(&output) {
                failures.push(format!(
                    "`{}` was accepted by the parser and the {} generator wrote `{}` which does not parse: {}",
                    code, generator, output, err
                ));
            } else if generator == "retain_lines" && output.trim() != code.trim() {
                failures.push(format!(
                    "`{}` was accepted by the parser and retain_lines (without rules) wrote `{}`",
                    code, output
                ));
            }
        }
    }

    assert!(failures.is_empty(), "\n{}", failures.join("\n"));
}
