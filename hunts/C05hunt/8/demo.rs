// C05: requiring a data file must yield its parsed content, and an input that cannot be bundled
// must be reported as an error. A YAML mapping with a null key (`~: v`, valid YAML) or a NaN key
// is emitted as the table constructor `{[nil] = v}` / `{[(0/0)] = v}`: the bundle is produced
// without any error, but Lua 5.1 and Luau both throw "table index is nil" / "table index is NaN"
// when the constructor runs, i.e. the require of the data module crashes at run time.
use darklua_core::{process, Options, Resources};

fn bundle(yaml: &str) -> Result<String, String> {
    let resources = Resources::from_memory();
    resources
        .write(
            ".darklua.json",
            r#"{ "rules": [], "generator": "dense", "bundle": { "require_mode": "path" } }"#,
        )
        .unwrap();
    resources.write("data.yaml", yaml).unwrap();
    resources
        .write("main.lua", "local data = require('./data.yaml')\nreturn data.name")
        .unwrap();
    process(&resources, Options::new("main.lua").with_output("out.lua"))
        .unwrap()
        .result()
        .map(|_| resources.get("out.lua").unwrap())
        .map_err(|errors| {
            errors
                .into_iter()
                .map(|e| e.to_string())
                .collect::<Vec<_>>()
                .join("\n")
        })
}

#[test]
fn yaml_null_key_never_produces_a_nil_table_index() {
    // either an error at bundle time or any representable key is fine; `[nil]=` is a runtime error
    if let Ok(out) = bundle("name: demo\n~: nothing\n") {
        assert!(
            !out.contains("[nil]="),
            "bundle throws `table index is nil` when data.yaml is required:\n{}",
            out
        );
    }
}

#[test]
fn yaml_nan_key_never_produces_a_nan_table_index() {
    if let Ok(out) = bundle("name: demo\n.nan: nothing\n") {
        assert!(
            !out.contains("[(0/0)]=") && !out.contains("[0/0]="),
            "bundle throws `table index is NaN` when data.yaml is required:\n{}",
            out
        );
    }
}
