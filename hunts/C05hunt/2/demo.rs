// C05: Luau looks for an alias in the nearest `.luaurc` and, when that file does not define it,
// keeps walking up the parent directories. darklua stops at the first `.luaurc` it finds, so an
// alias defined in a parent `.luaurc` is reported as unknown and the (valid, acyclic) program
// cannot be bundled.
use darklua_core::{process, Options, Resources};

#[test]
fn alias_defined_in_a_parent_luaurc_is_found() {
    let resources = Resources::from_memory();
    resources
        .write(
            ".darklua.json",
            r#"{ "rules": [], "generator": "readable", "bundle": { "require_mode": "luau" } }"#,
        )
        .unwrap();
    resources
        .write(".luaurc", r#"{ "aliases": { "pkg": "./pkg" } }"#)
        .unwrap();
    resources.write("pkg/p.luau", "return 'value of p'").unwrap();
    // the nearest .luaurc of the entry only sets something unrelated
    resources
        .write("src/.luaurc", r#"{ "aliases": { "other": "./other" } }"#)
        .unwrap();
    resources
        .write("src/main.luau", "local p = require('@pkg/p')\nreturn p\n")
        .unwrap();

    let result = process(
        &resources,
        Options::new("src/main.luau").with_output("out.luau"),
    )
    .unwrap()
    .result();

    if let Err(errors) = result {
        panic!(
            "bundling failed: {:?}",
            errors.into_iter().map(|e| e.to_string()).collect::<Vec<_>>()
        );
    }
    let out = resources.get("out.luau").unwrap();
    assert!(out.contains("value of p"), "unexpected output:\n{}", out);
}
