// C05: data files must yield their parsed content. JSON/JSON5 files are decoded through
// `serde_json::Value`, which cannot hold non-finite numbers (they silently become null -> `nil`)
// nor integers above u64::MAX (the whole bundle fails with "JSON number out of range").
// The yaml and toml paths produce `(1/0)`, `(-1/0)` and `(0/0)` for the same values.
use darklua_core::{process, Options, Resources};

fn bundle(data_file: &str, content: &str) -> Result<String, Vec<String>> {
    let resources = Resources::from_memory();
    resources
        .write(
            ".darklua.json",
            r#"{ "rules": [], "generator": "readable", "bundle": { "require_mode": "path" } }"#,
        )
        .unwrap();
    resources.write(data_file, content).unwrap();
    resources
        .write("main.lua", &format!("return require('./{}')", data_file))
        .unwrap();
    process(&resources, Options::new("main.lua").with_output("out.lua"))
        .unwrap()
        .result()
        .map(|_| resources.get("out.lua").unwrap())
        .map_err(|errors| errors.into_iter().map(|e| e.to_string()).collect())
}

#[test]
fn json5_non_finite_numbers_are_not_dropped() {
    let out = bundle(
        "data.json5",
        "{ pos: Infinity, neg: -Infinity, nan: NaN, big: 1e400 }",
    )
    .expect("bundling should succeed");

    // a `key = nil` table entry means the value was lost: in Lua the key does not even exist
    for key in ["pos", "neg", "nan", "big"] {
        assert!(
            !out.contains(&format!("{} = nil", key)),
            "the value of `{}` was replaced with nil:\n{}",
            key,
            out
        );
    }
}

#[test]
fn json_integer_larger_than_u64_is_a_valid_number() {
    // valid JSON (RFC 8259 puts no bound on integers); every Lua JSON decoder yields the double 1.2345678901234568e+29
    let out = bundle("data.json", r#"{ "n": 123456789012345678901234567890 }"#)
        .unwrap_or_else(|errors| panic!("valid json rejected: {:?}", errors));
    assert!(out.contains("n = 1234567890123456"), "{}", out);
}
