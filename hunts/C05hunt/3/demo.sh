#!/usr/bin/env bash
# C05: "every required module body runs at most once, every requirer receives the same value ...
# the same file reached through different relative spellings".
# The bundler identifies a module by its lexically normalized path only. As soon as one spelling
# is resolved to an absolute path and another one to a relative path (absolute entry path on the
# command line, absolute -c config path whose location anchors the `sources`, or a path that
# leaves and re-enters the current directory), ONE file becomes TWO bundled modules: its body runs
# twice and the two requirers get different values.
#
# usage: demo.sh [path to darklua binary]   (default: $CARGO_TARGET_DIR/debug/darklua)
set -u
DARKLUA="${1:-${CARGO_TARGET_DIR:-/tmp/wt_C05hunt/target}/debug/darklua}"
WORK="$(mktemp -d)"
trap 'rm -rf "$WORK"' EXIT
fail=0

mkdir -p "$WORK/proj/packages" "$WORK/proj/src" "$WORK/proj/shared"
cd "$WORK/proj"
cat > .darklua.json <<'JSON'
{ "generator": "readable", "rules": [],
  "bundle": { "require_mode": { "name": "path", "sources": { "pkg": "./packages" } } } }
JSON
echo 'return {}' > packages/x.lua
cat > main.lua <<'LUA'
local x1 = require("pkg/x")
local x2 = require("./packages/x")
return x1 == x2 -- true with a standard require: one module, loaded once
LUA

count_modules() { grep -c 'local function __modImpl' "$1"; }

# control: everything relative -> one module
"$DARKLUA" process main.lua out_relative.lua >/dev/null 2>&1
n=$(count_modules out_relative.lua)
echo "relative entry, default config : $n module definition(s)"
[ "$n" = "1" ] || { echo "control failed"; fail=1; }

# 1. absolute entry path
"$DARKLUA" process "$PWD/main.lua" out_abs_entry.lua >/dev/null 2>&1
n=$(count_modules out_abs_entry.lua)
echo "absolute entry path            : $n module definition(s) (expected 1)"
[ "$n" = "1" ] || { fail=1; grep -n '^local x' out_abs_entry.lua; }

# 2. absolute configuration path
"$DARKLUA" process -c "$PWD/.darklua.json" main.lua out_abs_config.lua >/dev/null 2>&1
n=$(count_modules out_abs_config.lua)
echo "absolute -c configuration path : $n module definition(s) (expected 1)"
[ "$n" = "1" ] || { fail=1; grep -n '^local x' out_abs_config.lua; }

# 3. only relative paths, darklua started inside src/: src/main.lua requires ./config and
#    ../shared/util, which requires ../src/config (the same src/config.lua)
echo 'return { counter = 0 }' > src/config.lua
echo 'local config = require("../src/config") return { config = config }' > shared/util.lua
cat > src/main.lua <<'LUA'
local config = require("./config")
local util = require("../shared/util")
return util.config == config
LUA
cp .darklua.json src/.darklua.json
( cd src && "$DARKLUA" process main.lua out.lua >/dev/null 2>&1 )
n=$(grep -c 'counter = 0' src/out.lua)
echo "cwd = src, ../src/config       : config.lua body bundled $n time(s) (expected 1)"
[ "$n" = "1" ] || fail=1

if [ "$fail" = "0" ]; then echo "PASS"; else echo "FAIL: the same file was bundled as several modules"; fi
exit $fail
