// C05 (luau require mode): inside an `init.luau` file, `./x` is relative to the PARENT of the
// folder that holds the init file (Luau semantics, which darklua implements for `proj/init.luau`).
// When the entry is given as `init.luau` (no directory component, i.e. darklua runs inside the
// folder), `./x` resolves to the file next to init.luau instead.
use darklua_core::{process, Options, Resources};

fn bundle(entry: &str, files: &[(&str, &str)]) -> String {
    let resources = Resources::from_memory();
    resources
        .write(
            ".darklua.json",
            r#"{ "rules": [], "generator": "readable", "bundle": { "require_mode": "luau" } }"#,
        )
        .unwrap();
    for (path, content) in files {
        resources.write(path, content).unwrap();
    }
    let result = process(&resources, Options::new(entry).with_output("out.luau"))
        .unwrap()
        .result();
    if let Err(errors) = result {
        panic!(
            "bundling failed: {:?}",
            errors.into_iter().map(|e| e.to_string()).collect::<Vec<_>>()
        );
    }
    resources.get("out.luau").unwrap()
}

#[test]
fn control_init_in_a_named_folder_uses_the_parent_of_the_folder() {
    let out = bundle(
        "proj/init.luau",
        &[
            ("proj/init.luau", "return require('./x')"),
            ("proj/x.luau", "return 'INSIDE the folder (wrong)'"),
            ("x.luau", "return 'SIBLING of the folder (right)'"),
        ],
    );
    assert!(out.contains("SIBLING of the folder"), "{}", out);
}

#[test]
fn init_in_the_current_directory_uses_the_parent_of_the_folder() {
    let out = bundle(
        "init.luau",
        &[
            ("init.luau", "return require('./x')"),
            ("x.luau", "return 'INSIDE the folder (wrong)'"),
            ("../x.luau", "return 'SIBLING of the folder (right)'"),
        ],
    );
    assert!(
        out.contains("SIBLING of the folder") && !out.contains("INSIDE the folder"),
        "`./x` in init.luau must resolve to ../x.luau, got:\n{}",
        out
    );
}
