// C05: "a missing file or a malformed module is reported as an error naming the files involved".
// A malformed json/yaml/toml data module is reported WITHOUT the name of the data file: only the
// entry file is named, so in a graph with many data requires the user cannot tell which file is
// broken. (A malformed .lua module does name the file: "unable to parse `bad.lua`: ...".)
use darklua_core::{process, Options, Resources};

fn bundle_errors(data_file: &str, content: &str) -> String {
    let resources = Resources::from_memory();
    resources
        .write(
            ".darklua.json",
            r#"{ "rules": [], "generator": "readable", "bundle": { "require_mode": "path" } }"#,
        )
        .unwrap();
    resources.write(data_file, content).unwrap();
    resources.write("lib/ok.json", "{ \"fine\": true }").unwrap();
    resources
        .write(
            "main.lua",
            &format!(
                "local ok = require('./lib/ok.json')\nlocal data = require('./{}')\nreturn data",
                data_file
            ),
        )
        .unwrap();
    let errors = process(&resources, Options::new("main.lua").with_output("out.lua"))
        .unwrap()
        .result()
        .expect_err("malformed data file must be reported");
    errors
        .into_iter()
        .map(|e| e.to_string())
        .collect::<Vec<_>>()
        .join("\n")
}

#[test]
fn control_malformed_lua_module_is_named() {
    let message = bundle_errors("lib/broken.lua", "return +");
    assert!(message.contains("broken.lua"), "{}", message);
}

#[test]
fn malformed_json_module_is_named() {
    let message = bundle_errors("lib/broken.json", "{ \"a\": ");
    assert!(message.contains("broken.json"), "error does not name the file: {}", message);
}

#[test]
fn malformed_yaml_module_is_named() {
    let message = bundle_errors("lib/broken.yaml", "a: [1\n");
    assert!(message.contains("broken.yaml"), "error does not name the file: {}", message);
}

#[test]
fn malformed_toml_module_is_named() {
    let message = bundle_errors("lib/broken.toml", "a = \n");
    assert!(message.contains("broken.toml"), "error does not name the file: {}", message);
}
