// C05: data files must yield their parsed content. A TOML date/time value is emitted as a table
// holding the private serde marker of the `toml` crate: { ["$__toml_private_datetime"] = "..." }
// instead of the value (e.g. the RFC 3339 string).
use darklua_core::{process, Options, Resources};

#[test]
fn toml_datetime_does_not_leak_the_serde_private_marker() {
    let resources = Resources::from_memory();
    resources
        .write(
            ".darklua.json",
            r#"{ "rules": [], "generator": "dense", "bundle": { "require_mode": "path" } }"#,
        )
        .unwrap();
    resources
        .write("data.toml", "released = 1979-05-27T07:32:00Z\nname = 'x'\n")
        .unwrap();
    resources
        .write("main.lua", "return require('./data.toml').released")
        .unwrap();
    process(&resources, Options::new("main.lua").with_output("out.lua"))
        .unwrap()
        .result()
        .unwrap();
    let out = resources.get("out.lua").unwrap();

    assert!(
        !out.contains("$__toml_private_datetime"),
        "internal marker leaked in the bundle:\n{}",
        out
    );
    assert!(
        out.contains("released='1979-05-27T07:32:00Z'"),
        "expected the date-time value itself:\n{}",
        out
    );
}
