// C05: in luau require mode, an alias must be resolved with the `.luaurc` that applies to the
// file containing the require call (nearest one walking up from that file), like the Luau
// runtime does. darklua only reads the `.luaurc` nearest to the ENTRY file, so a nested module
// that lives under its own `.luaurc` silently gets a different file bundled.
use darklua_core::{process, Options, Resources};

#[test]
fn alias_is_resolved_from_the_luaurc_of_the_requiring_module() {
    let resources = Resources::from_memory();
    resources
        .write(
            ".darklua.json",
            r#"{ "rules": [], "generator": "readable", "bundle": { "require_mode": "luau" } }"#,
        )
        .unwrap();
    // applies to src/main.luau
    resources
        .write(".luaurc", r#"{ "aliases": { "dep": "./rootdep" } }"#)
        .unwrap();
    resources
        .write("rootdep/d.luau", "return 'WRONG: rootdep/d.luau'")
        .unwrap();
    resources
        .write("src/main.luau", "local a = require('./lib/a')\nreturn a\n")
        .unwrap();
    // applies to src/lib/a.luau (nearest .luaurc of the requiring file)
    resources
        .write("src/lib/.luaurc", r#"{ "aliases": { "dep": "./vendor" } }"#)
        .unwrap();
    resources
        .write("src/lib/vendor/d.luau", "return 'RIGHT: src/lib/vendor/d.luau'")
        .unwrap();
    resources
        .write("src/lib/a.luau", "local d = require('@dep/d')\nreturn d\n")
        .unwrap();

    let result = process(
        &resources,
        Options::new("src/main.luau").with_output("out.luau"),
    )
    .unwrap()
    .result();
    assert!(result.is_ok(), "bundling failed: {:?}", result.err().map(|errors| errors.into_iter().map(|e| e.to_string()).collect::<Vec<_>>()));

    let out = resources.get("out.luau").unwrap();
    assert!(
        out.contains("RIGHT: src/lib/vendor/d.luau") && !out.contains("WRONG"),
        "`@dep/d` required from src/lib/a.luau must resolve with src/lib/.luaurc, got:\n{}",
        out
    );
}
