//! C07: a lowering rule must remove every occurrence of its construct, wherever it is
//! nested. The types given to the explicit type instantiation of a method call
//! (`obj:method<<T>>()`) are never visited, so a construct nested in a `typeof(...)`
//! there survives every lowering rule (except remove_types, which drops the whole list).

use darklua_core::{
    generator::{LuaGenerator, ReadableLuaGenerator},
    rules::{ContextBuilder, Rule},
    Parser, Resources,
};

fn apply(rule_name: &str, code: &str) -> String {
    let mut block = Parser::default()
        .parse(code)
        .unwrap_or_else(|err| panic!("input should parse: {:?}\n{}", err, code));

    let resources = Resources::from_memory();
    resources.write("src/test.lua", code).unwrap();
    let context = ContextBuilder::new("src/test.lua", &resources, code).build();

    let rule: Box<dyn Rule> = json5::from_str(&format!("'{}'", rule_name)).unwrap();
    rule.process(&mut block, &context)
        .expect("rule should succeed");

    let mut generator = ReadableLuaGenerator::new(80);
    generator.write_block(&block);
    generator.into_string()
}

#[test]
fn constructs_inside_method_type_instantiation_are_removed() {
    // (rule, input, text that must not be in the output)
    let cases = [
        (
            "remove_if_expression",
            "obj:method<<typeof(if a then b else c)>>()",
            "if a then",
        ),
        (
            "remove_interpolated_string",
            "obj:method<<typeof(`{a}`)>>()",
            "`",
        ),
        (
            "remove_floor_division",
            "obj:method<<typeof(a // b)>>()",
            "//",
        ),
        (
            "convert_luau_number",
            "obj:method<<typeof(0b1010)>>()",
            "0b1010",
        ),
        (
            "remove_continue",
            "obj:method<<typeof(function() for i = 1, 2 do continue end end)>>()",
            "continue",
        ),
        (
            "remove_compound_assignment",
            "obj:method<<typeof(function() a += 1 end)>>()",
            "+=",
        ),
        (
            "remove_attribute",
            "obj:method<<typeof(@native function() end)>>()",
            "@native",
        ),
    ];

    let mut failures = Vec::new();

    for (rule, input, forbidden) in cases {
        // sanity check: the same construct in the type instantiation of a plain call
        // is removed
        let plain_input = input.replace("obj:method", "obj.method");
        let plain_output = apply(rule, &plain_input);
        assert!(
            !plain_output.contains(forbidden),
            "`{}` on `{}` gives `{}`",
            rule,
            plain_input,
            plain_output
        );

        let output = apply(rule, input);
        if output.contains(forbidden) {
            failures.push(format!(
                "rule `{}` on `{}` still has `{}` in its output: `{}`",
                rule,
                input,
                forbidden,
                output.trim()
            ));
        }
    }

    assert!(
        failures.is_empty(),
        "constructs left in the output:\n{}",
        failures.join("\n")
    );
}
