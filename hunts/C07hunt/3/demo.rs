//! C07: applying the lowering rules yields text accepted by a strict Lua 5.1 grammar.
//!
//! With the `retain_lines` generator, remove_types removes an explicit type instantiation
//! written on several lines (`f<<\n T\n>>(y)`) but the `(` of the call stays on its
//! original line: the output is `f\n\n(y)`. Lua 5.1 refuses a line break before the `(`
//! of a function call (manual 2.5.8, "ambiguous syntax (function call x new statement)"),
//! and Luau refuses it too when the call is a statement.

use darklua_core::{process, Options, Resources};

const CONFIG: &str = r#"{
    generator: "retain_lines",
    rules: [
        "remove_types",
        "remove_compound_assignment",
        "remove_continue",
        "remove_if_expression",
        "remove_interpolated_string",
        "remove_floor_division",
        "convert_luau_number",
        "make_assignment_local",
        "remove_attribute",
    ],
}"#;

const INPUT: &str = "local create = require('./create')

local instance = create<<
    Props,
    State
>>(props)

create<<Props,
    State>>(props)

return instance
";

/// Returns the calls where a line break precedes the opening parenthese of the arguments:
/// lines that start with `(` when the previous code line does not end a statement
/// with `;` (in this input, no statement starts with a parenthese).
fn line_breaks_before_call_arguments(code: &str) -> Vec<String> {
    let lines: Vec<&str> = code
        .lines()
        .map(str::trim)
        .filter(|line| !line.is_empty())
        .collect();

    lines
        .windows(2)
        .filter(|pair| pair[1].starts_with('(') && !pair[0].ends_with(';'))
        .map(|pair| format!("{}\\n{}", pair[0], pair[1]))
        .collect()
}

#[test]
fn call_arguments_stay_on_the_line_of_the_function() {
    let resources = Resources::from_memory();
    resources.write("src/main.lua", INPUT).unwrap();
    resources.write("src/create.lua", "return nil").unwrap();
    resources.write(".darklua.json5", CONFIG).unwrap();

    process(
        &resources,
        Options::new("src/main.lua")
            .with_output("out/main.lua")
            .with_configuration_at(".darklua.json5"),
    )
    .unwrap()
    .result()
    .unwrap();

    let output = resources.get("out/main.lua").unwrap();

    // sanity check: the input has no such line break
    assert!(line_breaks_before_call_arguments(INPUT).is_empty());
    // the types are gone
    assert!(!output.contains("<<") && !output.contains("Props,"), "{}", output);

    let line_breaks = line_breaks_before_call_arguments(&output);

    assert!(
        line_breaks.is_empty(),
        "Lua 5.1 refuses a line break before the `(` of a call \
        (ambiguous syntax (function call x new statement)): {:?}\noutput:\n{}",
        line_breaks,
        output
    );
}
