//! C07: applying the lowering rules yields text accepted by a (strict Lua 5.1) grammar.
//!
//! remove_if_expression turns `if x then 1 elseif y then 2 else 3` into the tree
//! `x and 1 or (y and 2 or 3)` where the parentheses are not an AST node: they are added
//! by the generators because the right operand of `or` is itself an `or`. When the next
//! statement starts with a parenthese the generators forget the `;` that must separate
//! the two statements, because they look at the last *AST leaf* (`3`, a number) and
//! not at what they write (`)`).

use darklua_core::{
    generator::{DenseLuaGenerator, LuaGenerator, ReadableLuaGenerator},
    nodes::Block,
    rules::{ContextBuilder, Rule},
    Parser, Resources,
};

fn apply(rule_name: &str, code: &str) -> Block {
    let mut block = Parser::default()
        .parse(code)
        .unwrap_or_else(|err| panic!("input should parse: {:?}\n{}", err, code));

    let resources = Resources::from_memory();
    resources.write("src/test.lua", code).unwrap();
    let context = ContextBuilder::new("src/test.lua", &resources, code).build();

    let rule: Box<dyn Rule> = json5::from_str(&format!("'{}'", rule_name)).unwrap();
    rule.process(&mut block, &context)
        .expect("rule should succeed");
    block
}

fn readable(block: &Block) -> String {
    let mut generator = ReadableLuaGenerator::new(80);
    generator.write_block(block);
    generator.into_string()
}

fn dense(block: &Block) -> String {
    let mut generator = DenseLuaGenerator::new(80);
    generator.write_block(block);
    generator.into_string()
}

fn check(rule: &str, input: &str, expected: &str) -> Vec<String> {
    let mut failures = Vec::new();
    let block = apply(rule, input);
    let expected_block = Parser::default().parse(expected).unwrap();

    for (name, output) in [("readable", readable(&block)), ("dense", dense(&block))] {
        // the darklua parser accepts a superset of Lua 5.1: what it refuses, a strict
        // Lua 5.1 grammar refuses too
        match Parser::default().parse(&output) {
            Err(err) => failures.push(format!(
                "[{} / {}] the output is not accepted by the parser ({}):\n{}",
                rule, name, err, output
            )),
            Ok(parsed) => {
                if parsed != expected_block {
                    failures.push(format!(
                        "[{} / {}] the output reads as a different program \
                        ({} statement(s) instead of {}):\n{}",
                        rule,
                        name,
                        parsed.statements_len(),
                        expected_block.statements_len(),
                        output
                    ));
                }
            }
        }
    }
    failures
}

#[test]
fn lowered_statement_is_separated_from_a_following_parenthese() {
    let mut failures = Vec::new();

    // the output `local a = x and 1 or (y and 2 or 3)\n(f).x = 1` is a syntax error
    failures.extend(check(
        "remove_if_expression",
        "local a = if x then 1 elseif y then 2 else 3\n(f).x = 1\n",
        "local a = x and 1 or (y and 2 or 3);\n(f).x = 1\n",
    ));
    // the output `local a = x and 1 or (y and 2 or 3)\n(f)()` is ONE statement that
    // calls `(y and 2 or 3)`
    failures.extend(check(
        "remove_if_expression",
        "local a = if x then 1 elseif y then 2 else 3\n(f)()\n",
        "local a = x and 1 or (y and 2 or 3);\n(f)()\n",
    ));
    // same root cause through remove_compound_assignment: `a = a - (b - 1)\n(f)()`
    failures.extend(check(
        "remove_compound_assignment",
        "a -= b - 1\n(f).x = 1\n",
        "a = a - (b - 1);\n(f).x = 1\n",
    ));

    assert!(failures.is_empty(), "\n{}", failures.join("\n\n"));
}
