//! C07: applying the lowering rules to a program that only uses those Luau extensions
//! yields text accepted by a strict Lua 5.1 grammar.
//!
//! remove_interpolated_string turns the text of an interpolated string into a new string
//! node; the generators write every non-ASCII character of such a string with the
//! `\u{XXX}` escape, which is a Luau / Lua 5.3 extension: it is not one of the escape
//! sequences of Lua 5.1 (manual 2.1), and the reference Lua 5.1 reads `'\u{e9}'` as the
//! six characters `u{e9}`.

use darklua_core::{process, Options, Resources};

const RULES: &str = r#"[
    "remove_types",
    "remove_compound_assignment",
    "remove_continue",
    "remove_if_expression",
    "remove_interpolated_string",
    "remove_floor_division",
    "convert_luau_number",
    "make_assignment_local",
    "remove_attribute",
]"#;

// the only Luau extension used is the interpolated string (UTF-8 text in a string is
// plain bytes for Lua 5.1)
const INPUT: &str = "local t = 20\nprint(`Température: {t}°C`)\nprint(`é`)\n";

fn run(generator: &str) -> String {
    let resources = Resources::from_memory();
    resources.write("src/main.lua", INPUT).unwrap();
    resources
        .write(
            ".darklua.json5",
            &format!("{{ generator: '{}', rules: {} }}", generator, RULES),
        )
        .unwrap();

    process(
        &resources,
        Options::new("src/main.lua")
            .with_output("out/main.lua")
            .with_configuration_at(".darklua.json5"),
    )
    .unwrap()
    .result()
    .unwrap();

    resources.get("out/main.lua").unwrap()
}

#[test]
fn lowered_interpolated_string_only_uses_lua51_escapes() {
    let mut failures = Vec::new();

    for generator in ["readable", "dense", "retain_lines"] {
        let output = run(generator);

        assert!(!output.contains('`'), "{}", output);

        // the escape sequences of Lua 5.1: \a \b \f \n \r \t \v \\ \" \' \newline \ddd
        let bytes = output.as_bytes();
        let mut index = 0;
        while index < bytes.len() {
            if bytes[index] == b'\\' {
                let next = bytes.get(index + 1).copied().unwrap_or(b' ');
                let is_lua51_escape =
                    b"abfnrtv\\\"'\n".contains(&next) || next.is_ascii_digit();
                if !is_lua51_escape {
                    failures.push(format!(
                        "[{}] escape `\\{}` is not a Lua 5.1 escape sequence:\n{}",
                        generator, next as char, output
                    ));
                    break;
                }
                index += 2;
            } else {
                index += 1;
            }
        }
    }

    assert!(failures.is_empty(), "\n{}", failures.join("\n"));
}
