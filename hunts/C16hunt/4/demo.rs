// C16 violation: remove_method_call rewrites `obj:method(...)` into `obj.method(obj, ...)`,
// which reads the receiver variable twice, with the method lookup (`obj.method`, which can run
// arbitrary `__index` code) happening BETWEEN the two reads. `obj:method()` evaluates the
// receiver exactly once, BEFORE the lookup (OP_SELF / NAMECALL). When the lookup re-assigns
// the variable (lazy-initialisation proxies), the rewritten call passes a different `self`.
use darklua_core::{
    generator::{LuaGenerator, ReadableLuaGenerator},
    rules::{ContextBuilder, Rule},
    Parser, Resources,
};

fn apply(rule_names: &[&str], code: &str) -> String {
    let resources = Resources::from_memory();
    resources.write("test.lua", code).unwrap();
    let mut block = Parser::default().parse(code).expect("input should parse");
    let context = ContextBuilder::new("test.lua", &resources, code).build();
    for name in rule_names {
        let rule: Box<dyn Rule> = json5::from_str(&format!("'{}'", name)).unwrap();
        rule.process(&mut block, &context).expect("rule should succeed");
    }
    let mut generator = ReadableLuaGenerator::new(80);
    generator.write_block(&block);
    generator.into_string()
}

const INPUT: &str = r#"
local obj
obj = setmetatable({ name = "proxy" }, {
    __index = function(_, key)
        -- lazy initialisation: the first missing key swaps the proxy for the real object
        obj = { name = "real", getName = function(self) return self.name end }
        return obj[key]
    end,
})
-- the receiver is evaluated once (the proxy), then `getName` is looked up (which re-assigns
-- `obj`), then getName(proxy) is called: the program returns "proxy"
return obj:getName()
"#;

#[test]
fn receiver_that_is_reassigned_by_the_method_lookup_is_read_once() {
    let output = apply(&["remove_method_call"], INPUT);
    let squeezed: String = output.chars().filter(|c| !c.is_whitespace()).collect();

    // `obj.getName(obj)` evaluates `obj.getName` first (the __index function replaces `obj`),
    // then reads `obj` again for the argument: getName(real) is called and the program
    // returns "real" instead of "proxy"
    assert!(
        !squeezed.contains("returnobj.getName(obj)"),
        "the receiver `obj` is assigned somewhere else in the chunk (inside the __index \
         function), so it cannot be read a second time after the method lookup. Output:\n{}",
        output
    );
}
