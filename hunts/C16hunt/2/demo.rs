// C16 violation: convert_square_root_call replaces a `math.sqrt(<expr>)` call *statement*
// with `local _ = <expr>` (to keep the side effects of the argument). This declares a new
// local variable named `_` in the user's scope, which shadows an existing variable `_`
// (a very common name for loop keys or ignored values) for the rest of the block.
use darklua_core::{
    generator::{LuaGenerator, ReadableLuaGenerator},
    nodes::{Block, Statement},
    rules::{ContextBuilder, Rule},
    Parser, Resources,
};

fn apply(rule_names: &[&str], code: &str) -> (Block, String) {
    let resources = Resources::from_memory();
    resources.write("test.lua", code).unwrap();
    let mut block = Parser::default().parse(code).expect("input should parse");
    let context = ContextBuilder::new("test.lua", &resources, code).build();
    for name in rule_names {
        let rule: Box<dyn Rule> = json5::from_str(&format!("'{}'", name)).unwrap();
        rule.process(&mut block, &context).expect("rule should succeed");
    }
    let mut generator = ReadableLuaGenerator::new(80);
    generator.write_block(&block);
    let output = generator.into_string();
    (block, output)
}

/// counts the statements of the block that declare a local variable with the given name
fn count_declarations(block: &Block, name: &str) -> usize {
    block
        .iter_statements()
        .filter(|statement| match statement {
            Statement::LocalAssign(assign) => assign
                .iter_variables()
                .any(|variable| variable.get_name() == name),
            _ => false,
        })
        .count()
}

#[test]
fn sqrt_statement_does_not_shadow_user_variable() {
    // original: returns 5 (and reads `point.x` once, for `math.sqrt`)
    let input = "local point = { x = 4 }\nlocal _ = 5\nmath.sqrt(point.x)\nreturn _\n";
    let (block, output) = apply(&["convert_square_root_call"], input);

    // In the original program there is exactly one declaration of `_` in this block, and
    // `return _` refers to it. Any additional declaration of `_` placed between
    // `local _ = 5` and `return _` captures the reference of the return statement.
    assert_eq!(
        count_declarations(&block, "_"),
        1,
        "the rule introduced a second `local _` that shadows the user's variable: the \
         program now returns `point.x` (4) instead of 5. Output:\n{}",
        output
    );
}

#[test]
fn sqrt_statement_in_loop_does_not_shadow_loop_variable() {
    // original: collects the keys of `t` (the loop variable `_`)
    let input = "local keys = {}\nfor _, v in pairs(t) do\n    math.sqrt(v.x)\n    keys[#keys + 1] = _\nend\nreturn keys\n";
    let (block, output) = apply(&["convert_square_root_call"], input);

    let for_block = block
        .iter_statements()
        .find_map(|statement| match statement {
            Statement::GenericFor(generic_for) => Some(generic_for.get_block()),
            _ => None,
        })
        .expect("generic for should still be there");

    assert_eq!(
        count_declarations(for_block, "_"),
        0,
        "the rule introduced a `local _` that shadows the loop variable `_`: the loop now \
         stores `v.x` instead of the key. Output:\n{}",
        output
    );
}
