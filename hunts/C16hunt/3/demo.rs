// C16 violation: convert_square_root_call rewrites `math.sqrt(x)` into `x ^ 0.5`, but the two
// are not the same function: `^` is C `pow`, and pow(-inf, 0.5) = +inf while sqrt(-inf) = NaN,
// pow(-0, 0.5) = +0 while sqrt(-0) = -0 (C99 Annex F / IEEE 754). No error is involved in any
// of these evaluations, so such programs are inside the property's precondition.
use darklua_core::{
    generator::{LuaGenerator, ReadableLuaGenerator},
    rules::{ContextBuilder, Rule},
    Parser, Resources,
};

fn apply(rule_names: &[&str], code: &str) -> String {
    let resources = Resources::from_memory();
    resources.write("test.lua", code).unwrap();
    let mut block = Parser::default().parse(code).expect("input should parse");
    let context = ContextBuilder::new("test.lua", &resources, code).build();
    for name in rule_names {
        let rule: Box<dyn Rule> = json5::from_str(&format!("'{}'", name)).unwrap();
        rule.process(&mut block, &context).expect("rule should succeed");
    }
    let mut generator = ReadableLuaGenerator::new(80);
    generator.write_block(&block);
    generator.into_string()
}

fn squeeze(code: &str) -> String {
    code.chars().filter(|c| !c.is_whitespace()).collect()
}

#[test]
fn sqrt_of_negative_infinity_is_not_positive_infinity_with_default_compute_expression() {
    // original: math.sqrt(-inf) is NaN, so `r ~= r` is true
    let input = "local r = math.sqrt(-1/0)\nreturn r ~= r\n";
    let output = apply(&["convert_square_root_call", "compute_expression"], input);

    // darklua itself folds `(-1/0) ^ 0.5` with pow and writes +infinity (`1 / 0`)
    assert!(
        !squeeze(&output).contains("localr=1/0"),
        "math.sqrt(-1/0) is NaN but the rewritten program binds r to +infinity (1 / 0), so it \
         returns false instead of true (Lua 5.1 and Luau). Output:\n{}",
        output
    );
}

#[test]
fn sqrt_of_negative_infinity_is_not_rewritten_to_pow() {
    // original (Lua 5.1 and Luau): returns true, because math.sqrt(-math.huge) is NaN
    let input = "local x = -math.huge\nlocal r = math.sqrt(x)\nreturn r ~= r\n";
    let output = apply(&["convert_square_root_call"], input);

    // Lua 5.1 evaluates `x ^ 0.5` with pow(x, 0.5) = +inf for x = -inf, so `r ~= r` is false
    assert!(
        !squeeze(&output).contains("localr=x^0.5"),
        "`x ^ 0.5` is +inf (pow) when x is -inf whereas math.sqrt(x) is NaN: the program \
         returns false instead of true on Lua 5.1. Output:\n{}",
        output
    );
}

#[test]
fn sqrt_of_negative_zero_keeps_its_sign() {
    // original: math.sqrt(-0.0) is -0, so 1 / r is -inf and the program returns true
    let input = "local zero = 0\nlocal r = math.sqrt(-zero)\nreturn 1 / r < 0\n";
    let output = apply(&["convert_square_root_call"], input);

    // pow(-0, 0.5) is +0, so 1 / r is +inf and the program returns false
    assert!(
        !squeeze(&output).contains("localr=(-zero)^0.5"),
        "`(-zero) ^ 0.5` is +0 (pow) whereas math.sqrt(-0) is -0: `1 / r < 0` changes from \
         true to false on Lua 5.1. Output:\n{}",
        output
    );
}
