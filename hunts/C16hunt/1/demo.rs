// C16 violation: group_local_assignment merges a `const` declaration with a following
// `local` declaration and keeps the keyword of the first statement. The variable declared
// with `local` becomes a `const` binding, so a later (valid) re-assignment of it is turned
// into a Luau compile error ("cannot assign to a const variable").
use darklua_core::{
    generator::{LuaGenerator, ReadableLuaGenerator},
    nodes::{AssignmentKind, Block, Statement},
    rules::{ContextBuilder, Rule},
    Parser, Resources,
};

fn apply(rule_names: &[&str], code: &str) -> (Block, String) {
    let resources = Resources::from_memory();
    resources.write("test.lua", code).unwrap();
    let mut block = Parser::default().parse(code).expect("input should parse");
    let context = ContextBuilder::new("test.lua", &resources, code).build();
    for name in rule_names {
        let rule: Box<dyn Rule> = json5::from_str(&format!("'{}'", name)).unwrap();
        rule.process(&mut block, &context).expect("rule should succeed");
    }
    let mut generator = ReadableLuaGenerator::new(80);
    generator.write_block(&block);
    let output = generator.into_string();
    (block, output)
}

/// returns the kind of the declaration that declares `name` (last one wins)
fn declaration_kind(block: &Block, name: &str) -> Option<AssignmentKind> {
    let mut kind = None;
    for statement in block.iter_statements() {
        if let Statement::LocalAssign(assign) = statement {
            if assign
                .iter_variables()
                .any(|variable| variable.get_name() == name)
            {
                kind = Some(assign.get_assignment_kind());
            }
        }
    }
    kind
}

#[test]
fn const_followed_by_local_with_value_keeps_local_mutable() {
    // valid Luau: `a` is constant, `b` is a normal local that is re-assigned afterwards
    let input = "const a = 1\nlocal b = 2\nb = b + a\nreturn b\n";
    let (block, output) = apply(&["group_local_assignment"], input);

    assert_eq!(
        declaration_kind(&block, "b"),
        Some(AssignmentKind::Local),
        "`b` was declared with `local` and is re-assigned by `b = b + a`, it must not become \
         a `const` binding. Output:\n{}",
        output
    );
}

#[test]
fn const_followed_by_local_without_value_keeps_local_mutable() {
    // forward declaration pattern: `local b` is assigned later
    let input = "const a = 1\nlocal b\nb = a + 1\nreturn b\n";
    let (block, output) = apply(&["group_local_assignment"], input);

    assert_eq!(
        declaration_kind(&block, "b"),
        Some(AssignmentKind::Local),
        "`b` was declared with `local` and is assigned by `b = a + 1`, it must not become \
         a `const` binding. Output:\n{}",
        output
    );
}
