use darklua_core::{process, Options, Resources};

/// runs darklua (default `retain_lines` generator) on one in-memory file with the given rules
fn run(code: &str, rules: &str) -> String {
    let resources = Resources::from_memory();
    resources.write("src/test.lua", code).unwrap();
    resources
        .write(".darklua.json5", &format!("{{ rules: {} }}", rules))
        .unwrap();
    process(
        &resources,
        Options::new("src/test.lua").with_configuration_at(".darklua.json5"),
    )
    .expect("darklua should start")
    .result()
    .unwrap_or_else(|errors| {
        panic!(
            "darklua failed: {}",
            errors
                .into_iter()
                .map(|e| e.to_string())
                .collect::<Vec<_>>()
                .join("\n")
        )
    });
    resources.get("src/test.lua").unwrap()
}

const RULES: &str = "[{ rule: 'remove_comments', except: ['^--!native$'] }]";

#[test]
fn control_the_pattern_keeps_the_comment_in_a_file_with_line_feeds() {
    let output = run("--!native\nlocal x = 1 -- drop\n", RULES);
    assert!(output.contains("--!native"), "output: {:?}", output);
    assert!(!output.contains("drop"), "output: {:?}", output);
}

#[test]
fn the_pattern_keeps_the_same_comment_in_a_file_with_crlf_line_endings() {
    // same file, Windows line endings: the comment is still exactly `--!native`
    // (for Lua 5.1 and for Luau a carriage return ends a line comment, it is not part of it)
    let output = run("--!native\r\nlocal x = 1 -- drop\r\n", RULES);
    assert!(
        output.contains("--!native"),
        "the comment selected by `except` was removed: {:?}",
        output
    );
    assert!(!output.contains("drop"), "output: {:?}", output);
}
