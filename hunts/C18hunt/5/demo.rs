use darklua_core::{process, Options, Resources};

/// runs darklua (default `retain_lines` generator) on one in-memory file with the given rules
fn run(code: &str, rules: &str) -> String {
    let resources = Resources::from_memory();
    resources.write("src/test.lua", code).unwrap();
    resources
        .write(".darklua.json5", &format!("{{ rules: {} }}", rules))
        .unwrap();
    process(
        &resources,
        Options::new("src/test.lua").with_configuration_at(".darklua.json5"),
    )
    .expect("darklua should start")
    .result()
    .unwrap_or_else(|errors| {
        panic!(
            "darklua failed: {}",
            errors
                .into_iter()
                .map(|e| e.to_string())
                .collect::<Vec<_>>()
                .join("\n")
        )
    });
    resources.get("src/test.lua").unwrap()
}

// none of these files has a comment: `remove_comments` must give them back unchanged

#[test]
fn union_key_of_a_table_indexer() {
    let source = "type Map = { [string | number]: boolean }\n";
    assert_eq!(run(source, "['remove_comments']"), source);
}

#[test]
fn optional_key_of_a_table_indexer() {
    let source = "type Map = { [string?]: boolean }\n";
    assert_eq!(run(source, "['remove_comments']"), source);
}

#[test]
fn optional_type_inside_a_union() {
    let source = "type Value = string? | number\n";
    assert_eq!(run(source, "['remove_comments']"), source);
}

#[test]
fn optional_function_type_returning_nothing() {
    let source = "type Callback = () -> ()?\n";
    assert_eq!(run(source, "['remove_comments']"), source);
}

#[test]
fn remove_spaces_only_removes_spaces() {
    let source = "type Map = { [string | number]: boolean }\n";
    assert_eq!(
        run(source, "['remove_spaces']"),
        "type Map={[string|number]:boolean}"
    );
}
