use darklua_core::{process, Options, Resources};

/// runs darklua (default `retain_lines` generator) on one in-memory file with the given rules
fn run(code: &str, rules: &str) -> String {
    let resources = Resources::from_memory();
    resources.write("src/test.lua", code).unwrap();
    resources
        .write(".darklua.json5", &format!("{{ rules: {} }}", rules))
        .unwrap();
    process(
        &resources,
        Options::new("src/test.lua").with_configuration_at(".darklua.json5"),
    )
    .expect("darklua should start")
    .result()
    .unwrap_or_else(|errors| {
        panic!(
            "darklua failed: {}",
            errors
                .into_iter()
                .map(|e| e.to_string())
                .collect::<Vec<_>>()
                .join("\n")
        )
    });
    resources.get("src/test.lua").unwrap()
}

const CALLBACK: &str = "type Callback = (\n\t-- keep: every remaining argument\n\t...number\n) -> ()\n";

#[test]
fn remove_spaces_does_not_remove_the_comment_before_a_variadic_type() {
    let output = run(CALLBACK, "['remove_spaces']");
    assert!(
        output.contains("-- keep: every remaining argument"),
        "remove_spaces lost a comment: {:?}",
        output
    );
}

#[test]
fn a_comment_kept_by_except_before_a_variadic_type_stays() {
    let output = run(
        CALLBACK,
        "[{ rule: 'remove_comments', except: ['^-- keep'] }]",
    );
    assert!(
        output.contains("-- keep: every remaining argument"),
        "the comment selected by `except` disappeared: {:?}",
        output
    );
}

#[test]
fn comments_after_the_ellipsis_of_a_generic_type_pack_stay() {
    let source = "local function f<T... --[[ keep: pack ]]>(...: T... --[[ keep: all ]]) end\n";
    let output = run(
        source,
        "[{ rule: 'remove_comments', except: ['keep'] }]",
    );
    assert!(
        output.contains("--[[ keep: pack ]]") && output.contains("--[[ keep: all ]]"),
        "the comments selected by `except` disappeared: {:?}",
        output
    );
}

#[test]
fn a_comment_after_the_ellipsis_of_a_variadic_return_type_stays() {
    let source = "local function f(): ... --[[ keep ]] number end\n";
    let output = run(source, "['remove_spaces']");
    assert!(
        output.contains("--[[ keep ]]"),
        "remove_spaces lost a comment: {:?}",
        output
    );
}
