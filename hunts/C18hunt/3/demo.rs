use darklua_core::{process, Options, Resources};

/// runs darklua (default `retain_lines` generator) on one in-memory file with the given rules
fn run(code: &str, rules: &str) -> String {
    let resources = Resources::from_memory();
    resources.write("src/test.lua", code).unwrap();
    resources
        .write(".darklua.json5", &format!("{{ rules: {} }}", rules))
        .unwrap();
    process(
        &resources,
        Options::new("src/test.lua").with_configuration_at(".darklua.json5"),
    )
    .expect("darklua should start")
    .result()
    .unwrap_or_else(|errors| {
        panic!(
            "darklua failed: {}",
            errors
                .into_iter()
                .map(|e| e.to_string())
                .collect::<Vec<_>>()
                .join("\n")
        )
    });
    resources.get("src/test.lua").unwrap()
}

#[test]
fn remove_comments_keeps_the_code_that_follows_a_carriage_return() {
    // a Lua 5.1 file whose line breaks are carriage returns (classic Mac OS line endings):
    // llex.c ends a short comment at '\n' or '\r' (`currIsNewline`), so this chunk declares
    // x, declares y and returns their sum; the only comment is `-- note`
    let source = "local x = 1 -- note\rlocal y = 2\rreturn x + y\r";

    let output = run(source, "['remove_comments']");

    assert!(!output.contains("note"), "the comment is still there: {:?}", output);
    assert!(
        output.contains("local y = 2") && output.contains("return x + y"),
        "remove_comments removed code: {:?}",
        output
    );
}

#[test]
fn remove_comments_keeps_the_code_after_a_stray_carriage_return_in_a_unix_file() {
    let source = "local x = 1 -- note\rlocal y = 2\nreturn x + y\n";

    let output = run(source, "['remove_comments']");

    assert!(
        output.contains("local y = 2"),
        "remove_comments removed code: {:?}",
        output
    );
}
