use darklua_core::{process, Options, Resources};

/// runs darklua (default `retain_lines` generator) on one in-memory file with the given rules
fn run(code: &str, rules: &str) -> String {
    let resources = Resources::from_memory();
    resources.write("src/test.lua", code).unwrap();
    resources
        .write(".darklua.json5", &format!("{{ rules: {} }}", rules))
        .unwrap();
    process(
        &resources,
        Options::new("src/test.lua").with_configuration_at(".darklua.json5"),
    )
    .expect("darklua should start")
    .result()
    .unwrap_or_else(|errors| {
        panic!(
            "darklua failed: {}",
            errors
                .into_iter()
                .map(|e| e.to_string())
                .collect::<Vec<_>>()
                .join("\n")
        )
    });
    resources.get("src/test.lua").unwrap()
}

#[test]
fn remove_comments_keeps_the_ellipsis_of_a_variadic_type_argument() {
    let source = "local value = create<<number, ...string>>()\n";
    // there is no comment at all in this file
    assert_eq!(run(source, "['remove_comments']"), source);
}

#[test]
fn remove_spaces_keeps_the_ellipsis_of_a_variadic_type_argument() {
    let source = "local value = create<<number, ...string>>() -- done\n";
    let output = run(source, "['remove_spaces']");
    assert!(
        output.contains("...string"),
        "the `...` token disappeared: {:?}",
        output
    );
}
