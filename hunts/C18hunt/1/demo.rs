use darklua_core::{process, Options, Resources};

/// runs darklua (default `retain_lines` generator) on one in-memory file with the given rules
fn run(code: &str, rules: &str) -> String {
    let resources = Resources::from_memory();
    resources.write("src/test.lua", code).unwrap();
    resources
        .write(".darklua.json5", &format!("{{ rules: {} }}", rules))
        .unwrap();
    process(
        &resources,
        Options::new("src/test.lua").with_configuration_at(".darklua.json5"),
    )
    .expect("darklua should start")
    .result()
    .unwrap_or_else(|errors| {
        panic!(
            "darklua failed: {}",
            errors
                .into_iter()
                .map(|e| e.to_string())
                .collect::<Vec<_>>()
                .join("\n")
        )
    });
    resources.get("src/test.lua").unwrap()
}

/// every line of the output that is a line comment on its own
fn own_line_comments(output: &str) -> Vec<&str> {
    output
        .lines()
        .map(str::trim)
        .filter(|line| line.starts_with("--"))
        .collect()
}

const SOURCE: &str = "--!strict\n--!native\nlocal x = 1\n";

#[test]
fn remove_spaces_keeps_each_line_comment_a_comment_of_its_own() {
    let output = run(SOURCE, "['remove_spaces']");

    // `remove_spaces` selects no comment: the two Luau directives must still be two comments
    // (Luau reads `--!strict--!native` as the single unknown directive `strict--!native`)
    let comments = own_line_comments(&output);
    assert!(
        comments.contains(&"--!strict") && comments.contains(&"--!native"),
        "the two comments were glued into one: {:?}",
        output
    );
}

#[test]
fn documented_except_pattern_followed_by_remove_spaces_keeps_both_directives() {
    // the configuration given by site/content/rules/remove_comments.md, followed by remove_spaces
    let output = run(
        SOURCE,
        "[{ rule: 'remove_comments', except: ['^--!'] }, 'remove_spaces']",
    );

    let comments = own_line_comments(&output);
    assert!(
        comments.contains(&"--!strict") && comments.contains(&"--!native"),
        "the two comments were glued into one: {:?}",
        output
    );
}

#[test]
fn a_comment_following_a_directive_is_not_appended_to_the_directive() {
    let output = run("--!strict\n-- module description\nreturn {}\n", "['remove_spaces']");

    assert!(
        own_line_comments(&output).contains(&"--!strict"),
        "the directive was extended with the next comment: {:?}",
        output
    );
}
