use darklua_core::{process, Configuration, Options, Resources};

#[allow(dead_code)]
fn run(config: &str, lua: &str) -> Result<String, String> {
    let resources = Resources::from_memory();
    resources.write("src/test.lua", lua).unwrap();
    resources.write(".darklua.json5", config).unwrap();
    let result = process(
        &resources,
        Options::new("src/test.lua").with_configuration_at(".darklua.json5"),
    )
    .map_err(|e| e.to_string())?;
    result.result().map_err(|errors| {
        errors
            .into_iter()
            .map(|e| e.to_string())
            .collect::<Vec<_>>()
            .join("; ")
    })?;
    Ok(resources.get("src/test.lua").unwrap())
}

#[allow(dead_code)]
fn write_back(config: &str) -> String {
    let configuration: Configuration =
        json5::from_str(config).expect("the configuration should be accepted");
    json5::to_string(&configuration).expect("the configuration should be serializable")
}

fn many_locals() -> String {
    // nested functions, 150 locals each (legal: fewer than 200 locals per function), so that
    // the generated names go past `io` and `os`
    let mut code = String::new();
    let depth = 12;
    for d in 0..depth {
        code.push_str("local function f()\n");
        for i in 0..150 {
            code.push_str(&format!("local v{}_{} = {}\n", d, i, i));
        }
    }
    for _ in 0..depth {
        code.push_str("end\n");
    }
    code
}

fn declares(code: &str, name: &str) -> bool {
    code.contains(&format!("local {} =", name))
}

// The documented default of `globals` is ['$default'], and the documented examples repeat
// '$default' when they want to keep it: a list without '$default' says that the default globals
// are not avoided. The list is in fact added to the default one.
#[test]
fn globals_list_replaces_the_default_list() {
    let lua = many_locals();
    let with_default = run(
        "{ rules: [{ rule: 'rename_variables', globals: ['$default'], detect_globals: false }] }",
        &lua,
    )
    .unwrap();
    let with_nothing = run(
        "{ rules: [{ rule: 'rename_variables', globals: [], detect_globals: false }] }",
        &lua,
    )
    .unwrap();

    // the sequence of generated names goes past `os` in both cases
    assert!(declares(&with_default, "ot") && declares(&with_nothing, "ot"));
    assert!(!declares(&with_default, "os"), "`$default` avoids `os`");

    assert!(
        declares(&with_nothing, "os"),
        "`globals: []` avoids no global: `os` should be generated like `ot` is"
    );
}

// What the configuration is written back as shows the same thing.
#[test]
fn globals_list_is_written_back_as_given() {
    let written = write_back("{ rules: [{ rule: 'rename_variables', globals: ['$roblox'] }] }");
    assert!(
        !written.contains("$default"),
        "`globals: ['$roblox']` became:\n{}",
        written
    );
}
