use darklua_core::{process, Configuration, Options, Resources};

#[allow(dead_code)]
fn run(config: &str, lua: &str) -> Result<String, String> {
    let resources = Resources::from_memory();
    resources.write("src/test.lua", lua).unwrap();
    resources.write(".darklua.json5", config).unwrap();
    let result = process(
        &resources,
        Options::new("src/test.lua").with_configuration_at(".darklua.json5"),
    )
    .map_err(|e| e.to_string())?;
    result.result().map_err(|errors| {
        errors
            .into_iter()
            .map(|e| e.to_string())
            .collect::<Vec<_>>()
            .join("; ")
    })?;
    Ok(resources.get("src/test.lua").unwrap())
}

#[allow(dead_code)]
fn write_back(config: &str) -> String {
    let configuration: Configuration =
        json5::from_str(config).expect("the configuration should be accepted");
    json5::to_string(&configuration).expect("the configuration should be serializable")
}

// A float property value of 2^64 or more (here 1e20) is accepted, but it is serialized by the
// JSON5 writer (the one used by darklua for its own configuration text) as the integer
// `100000000000000000000`, which darklua refuses to read ("invalid type: integer ... as u128").
#[test]
fn large_float_value_can_be_read_back() {
    for value in ["1e20", "[1e20]", "{ big: 2e19 }", "1e300"] {
        let config = format!(
            "{{ rules: [{{ rule: 'inject_global_value', identifier: 'VALUE', value: {} }}] }}",
            value
        );
        let lua = "return VALUE";

        let direct = run(&config, lua);
        assert!(direct.is_ok(), "the configuration is accepted: {:?}", direct);

        let written = write_back(&config);
        let again = run(&written, lua);

        assert_eq!(
            direct, again,
            "value {}: the serialized configuration must behave like the original one",
            value
        );
    }
}
