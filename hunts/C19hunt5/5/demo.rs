use darklua_core::{process, Configuration, Options, Resources};

#[allow(dead_code)]
fn run(config: &str, lua: &str) -> Result<String, String> {
    let resources = Resources::from_memory();
    resources.write("src/test.lua", lua).unwrap();
    resources.write(".darklua.json5", config).unwrap();
    let result = process(
        &resources,
        Options::new("src/test.lua").with_configuration_at(".darklua.json5"),
    )
    .map_err(|e| e.to_string())?;
    result.result().map_err(|errors| {
        errors
            .into_iter()
            .map(|e| e.to_string())
            .collect::<Vec<_>>()
            .join("; ")
    })?;
    Ok(resources.get("src/test.lua").unwrap())
}

#[allow(dead_code)]
fn write_back(config: &str) -> String {
    let configuration: Configuration =
        json5::from_str(config).expect("the configuration should be accepted");
    json5::to_string(&configuration).expect("the configuration should be serializable")
}

// `default_value` only has a meaning next to `env` or `env_json` (it is the value used when the
// environment variable is not defined). Given alone it is accepted and silently ignored: the
// rule injects `nil`, not 5.
#[test]
fn default_value_without_environment_variable_is_refused() {
    let config =
        "{ rules: [{ rule: 'inject_global_value', identifier: 'VALUE', default_value: 5 }] }";
    let result = run(config, "return VALUE");

    assert!(
        result.is_err(),
        "`default_value` without `env`/`env_json` should be refused, but the configuration was accepted and gave: {:?}",
        result
    );
}
