use darklua_core::{process, Configuration, Options, Resources};

#[allow(dead_code)]
fn run(config: &str, lua: &str) -> Result<String, String> {
    let resources = Resources::from_memory();
    resources.write("src/test.lua", lua).unwrap();
    resources.write(".darklua.json5", config).unwrap();
    let result = process(
        &resources,
        Options::new("src/test.lua").with_configuration_at(".darklua.json5"),
    )
    .map_err(|e| e.to_string())?;
    result.result().map_err(|errors| {
        errors
            .into_iter()
            .map(|e| e.to_string())
            .collect::<Vec<_>>()
            .join("; ")
    })?;
    Ok(resources.get("src/test.lua").unwrap())
}

#[allow(dead_code)]
fn write_back(config: &str) -> String {
    let configuration: Configuration =
        json5::from_str(config).expect("the configuration should be accepted");
    json5::to_string(&configuration).expect("the configuration should be serializable")
}

// Negative zero: `value: -0.0` injects `-0`, but the configuration is written back with
// `value: -0`, and `-0` is read as the integer 0 (the sign is dropped): the configuration read
// back injects `0`. (`1/VALUE` is -inf in one case and +inf in the other.)
#[test]
fn negative_zero_survives_a_round_trip() {
    let config = "{ rules: [{ rule: 'inject_global_value', identifier: 'VALUE', value: -0.0 }] }";
    let lua = "return 1 / VALUE";

    let direct = run(config, lua);
    assert_eq!(direct, Ok("return 1 / -0".to_owned()));

    let written = write_back(config);
    let again = run(&written, lua);

    assert_eq!(
        direct, again,
        "the serialized configuration must behave like the original one; serialized text:\n{}",
        written
    );
}

// The same number written without a fraction means something else.
#[test]
fn negative_zero_means_negative_zero() {
    let lua = "return 1 / VALUE";
    let with_fraction = run(
        "{ rules: [{ rule: 'inject_global_value', identifier: 'VALUE', value: -0.0 }] }",
        lua,
    );
    let without_fraction = run(
        "{ rules: [{ rule: 'inject_global_value', identifier: 'VALUE', value: -0 }] }",
        lua,
    );
    assert_eq!(with_fraction, without_fraction);
}
