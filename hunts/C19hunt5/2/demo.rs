use darklua_core::{process, Configuration, Options, Resources};

#[allow(dead_code)]
fn run(config: &str, lua: &str) -> Result<String, String> {
    let resources = Resources::from_memory();
    resources.write("src/test.lua", lua).unwrap();
    resources.write(".darklua.json5", config).unwrap();
    let result = process(
        &resources,
        Options::new("src/test.lua").with_configuration_at(".darklua.json5"),
    )
    .map_err(|e| e.to_string())?;
    result.result().map_err(|errors| {
        errors
            .into_iter()
            .map(|e| e.to_string())
            .collect::<Vec<_>>()
            .join("; ")
    })?;
    Ok(resources.get("src/test.lua").unwrap())
}

#[allow(dead_code)]
fn write_back(config: &str) -> String {
    let configuration: Configuration =
        json5::from_str(config).expect("the configuration should be accepted");
    json5::to_string(&configuration).expect("the configuration should be serializable")
}

// The `retain_lines` generator has no parameter: any other key next to its name must be refused
// (like it is for `dense` and `readable`, where `deny_unknown_fields` works).
#[test]
fn retain_lines_generator_refuses_unknown_fields() {
    for config in [
        "{ rules: [], generator: { name: 'retain_lines', column_span: 120 } }",
        "{ rules: [], generator: { name: 'retain_lines', colunm_span: 120 } }",
        "{ rules: [], generator: { name: 'retain-lines', anything: [1, 2, { a: null }] } }",
    ] {
        let result = run(config, "return 1");
        assert!(
            result.is_err(),
            "configuration `{}` should be refused but it was accepted (output: {:?})",
            config,
            result
        );
    }
}

// sanity check: the same unknown key is refused for the other generators
#[test]
fn dense_generator_refuses_unknown_fields() {
    let result = run(
        "{ rules: [], generator: { name: 'dense', colunm_span: 120 } }",
        "return 1",
    );
    assert!(result.is_err());
}
