use darklua_core::{process, Configuration, Options, Resources};

#[allow(dead_code)]
fn run(config: &str, lua: &str) -> Result<String, String> {
    let resources = Resources::from_memory();
    resources.write("src/test.lua", lua).unwrap();
    resources.write(".darklua.json5", config).unwrap();
    let result = process(
        &resources,
        Options::new("src/test.lua").with_configuration_at(".darklua.json5"),
    )
    .map_err(|e| e.to_string())?;
    result.result().map_err(|errors| {
        errors
            .into_iter()
            .map(|e| e.to_string())
            .collect::<Vec<_>>()
            .join("; ")
    })?;
    Ok(resources.get("src/test.lua").unwrap())
}

#[allow(dead_code)]
fn write_back(config: &str) -> String {
    let configuration: Configuration =
        json5::from_str(config).expect("the configuration should be accepted");
    json5::to_string(&configuration).expect("the configuration should be serializable")
}

// convert_require with the two modes that happen to be the defaults of the rule
// (`current: 'path'`, `target: 'roblox'`, the pair used in the documentation) is accepted, but
// it is written back as the bare rule name "convert_require", which darklua itself refuses
// (`current` and `target` are required).
#[test]
fn convert_require_with_default_modes_can_be_read_back() {
    let config = "{ rules: [{ rule: 'convert_require', current: 'path', target: 'roblox' }] }";
    let lua = "local a = 1\nreturn a";

    let direct = run(config, lua);
    assert!(direct.is_ok(), "the configuration is accepted: {:?}", direct);

    let written = write_back(config);
    let again = run(&written, lua);

    assert_eq!(
        direct, again,
        "the serialized configuration must behave like the original one; serialized text:\n{}",
        written
    );
}

#[test]
fn convert_require_object_modes_without_options_can_be_read_back() {
    let config =
        "{ rules: [{ rule: 'convert_require', current: { name: 'path' }, target: { name: 'roblox' } }] }";
    let written = write_back(config);
    let again: Result<Configuration, _> = json5::from_str(&written);
    assert!(
        again.is_ok(),
        "serialized text is refused: {}\n{}",
        again.err().map(|e| e.to_string()).unwrap_or_default(),
        written
    );
}
