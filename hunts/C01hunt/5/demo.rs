use darklua_core::nodes::*;
use darklua_core::{process, Options, Parser, Resources};

#[allow(dead_code)]
fn run(code: &str, config: &str) -> String {
    let resources = Resources::from_memory();
    resources.write("src/main.lua", code).unwrap();
    resources.write(".darklua.json", config).unwrap();
    process(
        &resources,
        Options::new("src/main.lua")
            .with_output("out/main.lua")
            .with_configuration_at(".darklua.json"),
    )
    .unwrap()
    .result()
    .unwrap();
    resources.get("out/main.lua").unwrap()
}

#[allow(dead_code)]
fn parse(code: &str) -> Block {
    Parser::default()
        .parse(code)
        .unwrap_or_else(|err| panic!("output does not parse: {:?}\n{}", err, code))
}

// C01: in a long bracket string Lua 5.1 and Luau skip a first line break whatever its
// spelling (`\n`, `\r\n`, `\r`) and turn every other `\r\n` into `\n`. darklua only skips a
// leading `\n` and keeps every `\r`, so for a file with Windows line endings the static value of
// the string is wrong: compute_expression folds `#[[...]]` / `==` to wrong constants and the
// dense/readable generators write a different string.
#[test]
fn default_rules_compute_the_length_of_a_long_string_in_a_crlf_file() {
    // the value is "ab\ncd" (5 bytes) for Lua 5.1 and Luau
    let code = "return #[[\r\nab\r\ncd]]\r\n";
    // default rule list, default generator
    let resources = Resources::from_memory();
    resources.write("src/main.lua", code).unwrap();
    process(&resources, Options::new("src/main.lua").with_output("out/main.lua"))
        .unwrap()
        .result()
        .unwrap();
    let output = resources.get("out/main.lua").unwrap();
    assert!(
        !output.contains('8'),
        "`#[[<CR><LF>ab<CR><LF>cd]]` is 5, darklua wrote:\n{}",
        output
    );
}

#[test]
fn compute_expression_compares_a_long_string_in_a_crlf_file() {
    let code = "return [[a\r\nb]] == 'a\\nb'\r\n";
    let output = run(
        code,
        r#"{ "generator": "dense", "rules": ["compute_expression"] }"#,
    );
    assert!(
        !output.contains("false"),
        "the comparison is true for Lua 5.1 and Luau, darklua wrote:\n{}",
        output
    );
}

#[test]
fn dense_generator_keeps_the_value_of_a_long_string_in_a_crlf_file() {
    let code = "return [[\r\nab\r\ncd]]\r\n";
    let output = run(code, r#"{ "generator": "dense", "rules": [] }"#);
    assert!(
        !output.contains("\\r"),
        "the string does not contain any carriage return for Lua 5.1 and Luau, darklua wrote:\n{}",
        output
    );
}
