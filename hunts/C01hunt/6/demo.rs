use darklua_core::nodes::*;
use darklua_core::{process, Options, Parser, Resources};

#[allow(dead_code)]
fn run(code: &str, config: &str) -> String {
    let resources = Resources::from_memory();
    resources.write("src/main.lua", code).unwrap();
    resources.write(".darklua.json", config).unwrap();
    process(
        &resources,
        Options::new("src/main.lua")
            .with_output("out/main.lua")
            .with_configuration_at(".darklua.json"),
    )
    .unwrap()
    .result()
    .unwrap();
    resources.get("out/main.lua").unwrap()
}

#[allow(dead_code)]
fn parse(code: &str) -> Block {
    Parser::default()
        .parse(code)
        .unwrap_or_else(|err| panic!("output does not parse: {:?}\n{}", err, code))
}

// C01: the dense and readable generators write every non-ASCII character of a (valid UTF-8)
// string as `\u{XXXX}`. This escape does not exist in Lua 5.1, where `\u` is simply `u`:
// the Lua 5.1 program `print("é")` (2 bytes, 0xC3 0xA9) becomes `print('\u{e9}')` which prints
// the 5 characters `u{e9}` when run by Lua 5.1.
#[test]
fn generated_string_must_be_readable_by_lua_5_1() {
    for generator in ["dense", "readable"] {
        let config = format!(r#"{{ "generator": "{}", "rules": [] }}"#, generator);
        let output = run("print(\"\u{e9}\")\n", &config);
        assert!(
            !output.contains("\\u{"),
            "[{}] the output uses an escape sequence that Lua 5.1 reads as the text `u{{e9}}`: {}",
            generator,
            output
        );
    }
}
