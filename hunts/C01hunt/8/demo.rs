use darklua_core::nodes::*;
use darklua_core::{process, Options, Parser, Resources};

#[allow(dead_code)]
fn run(code: &str, config: &str) -> String {
    let resources = Resources::from_memory();
    resources.write("src/main.lua", code).unwrap();
    resources.write(".darklua.json", config).unwrap();
    process(
        &resources,
        Options::new("src/main.lua")
            .with_output("out/main.lua")
            .with_configuration_at(".darklua.json"),
    )
    .unwrap()
    .result()
    .unwrap();
    resources.get("out/main.lua").unwrap()
}

#[allow(dead_code)]
fn parse(code: &str) -> Block {
    Parser::default()
        .parse(code)
        .unwrap_or_else(|err| panic!("output does not parse: {:?}\n{}", err, code))
}

// C01: arithmetic on strings that are not numbers goes through the metamethods of the string
// metatable (`luaV_arith` -> `call_binTM`). Evaluator::has_side_effects assumes that a
// statically known string can never trigger a metamethod (`maybe_metatable(String) = false`),
// so `"a" + "b"` is considered pure and removed.
const CODE: &str = r#"getmetatable("").__add = function(a, b) print("add", a, b) return 0 end
local unused = "a" + "b"
"#;

#[test]
fn arithmetic_on_non_numeric_strings_must_be_kept() {
    let output = run(
        CODE,
        r#"{ "generator": "dense", "rules": ["remove_unused_variable"] }"#,
    );
    assert!(
        output.contains('+'),
        "the input calls print('add', 'a', 'b'), the output never does:\n{}",
        output
    );
}
