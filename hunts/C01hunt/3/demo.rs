use darklua_core::nodes::*;
use darklua_core::{process, Options, Parser, Resources};

#[allow(dead_code)]
fn run(code: &str, config: &str) -> String {
    let resources = Resources::from_memory();
    resources.write("src/main.lua", code).unwrap();
    resources.write(".darklua.json", config).unwrap();
    process(
        &resources,
        Options::new("src/main.lua")
            .with_output("out/main.lua")
            .with_configuration_at(".darklua.json"),
    )
    .unwrap()
    .result()
    .unwrap();
    resources.get("out/main.lua").unwrap()
}

#[allow(dead_code)]
fn parse(code: &str) -> Block {
    Parser::default()
        .parse(code)
        .unwrap_or_else(|err| panic!("output does not parse: {:?}\n{}", err, code))
}

// C01: in `local x, y, x = 1, 2` the visible `x` is the third variable (nil). When `y` is
// unused, remove_unused_variable moves the value-less `x` to the front and produces
// `local x, x = nil, 1`: the visible `x` is now 1.
#[test]
fn removing_an_unused_variable_must_not_change_which_duplicate_name_is_visible() {
    let code = "local x, y, x = 1, 2\nreturn x\n";
    let output = run(
        code,
        r#"{ "generator": "readable", "rules": ["remove_unused_variable"] }"#,
    );
    let block = parse(&output);
    let Some(Statement::LocalAssign(assign)) = block.iter_statements().next() else {
        panic!("expected a local assignment first in `{}`", output)
    };
    let names: Vec<_> = assign
        .iter_variables()
        .map(|variable| variable.get_identifier().get_name().to_owned())
        .collect();
    let values: Vec<_> = assign.iter_values().collect();
    // the variable that `return x` reads is the LAST one named `x`
    let visible = names
        .iter()
        .rposition(|name| name == "x")
        .expect("`x` must still be declared");
    let value_is_nil = match values.get(visible) {
        None => true,
        Some(Expression::Nil(_)) => true,
        Some(_) => false,
    };
    assert!(
        value_is_nil,
        "the input returns nil, but in the output the visible `x` is initialized with a value:\n{}",
        output
    );
}
