use darklua_core::nodes::*;
use darklua_core::{process, Options, Parser, Resources};

#[allow(dead_code)]
fn run(code: &str, config: &str) -> String {
    let resources = Resources::from_memory();
    resources.write("src/main.lua", code).unwrap();
    resources.write(".darklua.json", config).unwrap();
    process(
        &resources,
        Options::new("src/main.lua")
            .with_output("out/main.lua")
            .with_configuration_at(".darklua.json"),
    )
    .unwrap()
    .result()
    .unwrap();
    resources.get("out/main.lua").unwrap()
}

#[allow(dead_code)]
fn parse(code: &str) -> Block {
    Parser::default()
        .parse(code)
        .unwrap_or_else(|err| panic!("output does not parse: {:?}\n{}", err, code))
}

// C01: reading an undefined global calls the `__index` metamethod of the environment table.
// Evaluator::has_side_effects answers `false` for every identifier, so remove_unused_variable
// (and remove_nil_declaration for extra values) drop the read and the metamethod call.
const CODE: &str = r#"setmetatable(_G, { __index = function(_, name) print("read of undefined global", name) end })
local unused = undefinedGlobal
"#;

#[test]
fn the_read_of_a_global_must_be_kept() {
    let output = run(
        CODE,
        r#"{ "generator": "readable", "rules": ["remove_unused_variable"] }"#,
    );
    assert!(
        output.contains("undefinedGlobal"),
        "the input calls print('read of undefined global', 'undefinedGlobal'), the output never does:\n{}",
        output
    );
}
