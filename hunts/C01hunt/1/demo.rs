use darklua_core::nodes::*;
use darklua_core::{process, Options, Parser, Resources};

#[allow(dead_code)]
fn run(code: &str, config: &str) -> String {
    let resources = Resources::from_memory();
    resources.write("src/main.lua", code).unwrap();
    resources.write(".darklua.json", config).unwrap();
    process(
        &resources,
        Options::new("src/main.lua")
            .with_output("out/main.lua")
            .with_configuration_at(".darklua.json"),
    )
    .unwrap()
    .result()
    .unwrap();
    resources.get("out/main.lua").unwrap()
}

#[allow(dead_code)]
fn parse(code: &str) -> Block {
    Parser::default()
        .parse(code)
        .unwrap_or_else(|err| panic!("output does not parse: {:?}\n{}", err, code))
}

// C01: `true and f()` yields exactly ONE value (the first result of `f()`); compute_expression
// rewrites it to a bare `f()` which, as the last expression of a return / argument list /
// table constructor, expands to ALL the results of `f()`.
fn check(code: &str, generator: &str) {
    let config = format!(
        r#"{{ "generator": "{}", "rules": ["compute_expression"] }}"#,
        generator
    );
    let output = run(code, &config);
    let block = parse(&output);
    let last = block
        .get_last_statement()
        .expect("output should still end with a return statement");
    let LastStatement::Return(returned) = last else {
        panic!("expected a return statement in `{}`", output)
    };
    let expressions: Vec<_> = returned.iter_expressions().collect();
    assert_eq!(expressions.len(), 1, "unexpected output `{}`", output);
    assert!(
        !matches!(
            expressions[0],
            Expression::Call(_) | Expression::VariableArguments(_)
        ),
        "[{}] `{}` returns exactly one value, but the output `{}` returns every value of the call/varargs",
        generator,
        code,
        output
    );
}

#[test]
fn and_or_operand_must_stay_truncated_to_one_value() {
    for generator in ["dense", "readable", "retain_lines"] {
        check("return true and f()", generator);
        check("return false or f()", generator);
        check("return nil or f()", generator);
        check("return 1 and ...", generator);
    }
}
