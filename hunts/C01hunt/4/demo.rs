use darklua_core::nodes::*;
use darklua_core::{process, Options, Parser, Resources};

#[allow(dead_code)]
fn run(code: &str, config: &str) -> String {
    let resources = Resources::from_memory();
    resources.write("src/main.lua", code).unwrap();
    resources.write(".darklua.json", config).unwrap();
    process(
        &resources,
        Options::new("src/main.lua")
            .with_output("out/main.lua")
            .with_configuration_at(".darklua.json"),
    )
    .unwrap()
    .result()
    .unwrap();
    resources.get("out/main.lua").unwrap()
}

#[allow(dead_code)]
fn parse(code: &str) -> Block {
    Parser::default()
        .parse(code)
        .unwrap_or_else(|err| panic!("output does not parse: {:?}\n{}", err, code))
}

// C01: a Luau interpolated string calls `tostring` (so the `__tostring` metamethod) on each
// value. Evaluator::has_side_effects only looks inside the values, so `{obj}` is
// considered pure and the whole string is dropped, while the equivalent `'value: ' .. obj`
// is (correctly) kept.
const CODE: &str = r#"local obj = setmetatable({}, { __tostring = function() print("called") return "obj" end })
local unused = `value: {obj}`
return obj
"#;

#[test]
fn remove_unused_variable_must_keep_the_tostring_call_of_an_interpolated_string() {
    let output = run(
        CODE,
        r#"{ "generator": "readable", "rules": ["remove_unused_variable"] }"#,
    );
    assert!(
        output.contains("`value: {obj}`"),
        "the interpolated string (which calls the effectful __tostring of obj) was removed:\n{}",
        output
    );
}

#[test]
fn remove_nil_declaration_must_keep_the_tostring_call_of_an_extra_interpolated_string() {
    let code = r#"local obj = setmetatable({}, { __tostring = function() print("called") return "obj" end })
local a = 1, `{obj}`
return a
"#;
    let output = run(
        code,
        r#"{ "generator": "readable", "rules": ["remove_nil_declaration"] }"#,
    );
    assert!(
        output.contains("`{obj}`"),
        "the interpolated string (which calls the effectful __tostring of obj) was removed:\n{}",
        output
    );
}
