use darklua_core::nodes::*;
use darklua_core::{process, Options, Parser, Resources};

#[allow(dead_code)]
fn run(code: &str, config: &str) -> String {
    let resources = Resources::from_memory();
    resources.write("src/main.lua", code).unwrap();
    resources.write(".darklua.json", config).unwrap();
    process(
        &resources,
        Options::new("src/main.lua")
            .with_output("out/main.lua")
            .with_configuration_at(".darklua.json"),
    )
    .unwrap()
    .result()
    .unwrap();
    resources.get("out/main.lua").unwrap()
}

#[allow(dead_code)]
fn parse(code: &str) -> Block {
    Parser::default()
        .parse(code)
        .unwrap_or_else(|err| panic!("output does not parse: {:?}\n{}", err, code))
}

// C01: remove_unused_variable keeps the side effect of `t.x` by writing `local _ = t.x`
// directly in the enclosing block: the new local shadows the user's variable named `_`.
#[test]
fn kept_side_effect_must_not_shadow_user_variable_named_underscore() {
    let code = "local _ = print\nlocal unused = t.x\n_('hello')\n";
    let output = run(
        code,
        r#"{ "generator": "readable", "rules": ["remove_unused_variable"] }"#,
    );
    let block = parse(&output);

    // the call `_('hello')` must still resolve to the first declaration (`print`): no other
    // declaration of `_` may be visible at the point of the call
    let mut visible_declarations_of_underscore = 0;
    let mut found_call = false;
    for statement in block.iter_statements() {
        match statement {
            Statement::LocalAssign(assign) => {
                visible_declarations_of_underscore += assign
                    .iter_variables()
                    .filter(|variable| variable.get_identifier().get_name() == "_")
                    .count();
            }
            Statement::Call(call) => {
                if matches!(call.get_prefix(), Prefix::Identifier(name) if name.get_name() == "_") {
                    found_call = true;
                    break;
                }
            }
            _ => {}
        }
    }
    assert!(found_call, "the call must be kept: `{}`", output);
    assert_eq!(
        visible_declarations_of_underscore, 1,
        "`_('hello')` calls `print` in the input, but in the output `_` was declared again before the call:\n{}",
        output
    );
}
