//! Property C03: with an empty rule list and the default `retain_lines` generator the
//! output is the input, byte for byte (inside Luau type annotations only parentheses and
//! spacing may differ).
use darklua_core::{process, Options, Resources};

/// Runs darklua on one file with `{ rules: [] }` (default generator) and returns what it wrote.
fn process_without_rules(code: &str) -> String {
    let resources = Resources::from_memory();
    resources.write("src/test.luau", code).unwrap();
    resources
        .write(".darklua.json", "{ \"rules\": [] }")
        .unwrap();
    process(
        &resources,
        Options::new("src").with_configuration_at(".darklua.json"),
    )
    .expect("darklua should run")
    .result()
    .expect("the input should be processed without error");
    resources.get("src/test.luau").unwrap()
}

/// What has to be identical inside type syntax: everything but spacing and parentheses.
#[allow(dead_code)]
fn without_spacing_and_parentheses(code: &str) -> String {
    code.chars()
        .filter(|c| !c.is_whitespace() && *c != '(' && *c != ')')
        .collect()
}

#[test]
fn the_comments_around_the_ellipsis_of_a_variadic_type_pack_are_kept() {
    for input in [
        "type F = () -> (\n\tnumber,\n\t-- any amount of names\n\t...string\n)\n",
        "local function f(): ... --[[ only numbers ]] number\nend\n",
        "type Packed = Pack<number, --[[ rest ]] ... --[[ of strings ]] string>\n",
    ] {
        let output = process_without_rules(input);
        assert_eq!(
            without_spacing_and_parentheses(&output),
            without_spacing_and_parentheses(input),
            "\ninput:  {:?}\noutput: {:?}",
            input,
            output
        );
    }
}
