//! Property C03: with an empty rule list and the default `retain_lines` generator the
//! output is the input, byte for byte (inside Luau type annotations only parentheses and
//! spacing may differ).
use darklua_core::{process, Options, Resources};

/// Runs darklua on one file with `{ rules: [] }` (default generator) and returns what it wrote.
fn process_without_rules(code: &str) -> String {
    let resources = Resources::from_memory();
    resources.write("src/test.luau", code).unwrap();
    resources
        .write(".darklua.json", "{ \"rules\": [] }")
        .unwrap();
    process(
        &resources,
        Options::new("src").with_configuration_at(".darklua.json"),
    )
    .expect("darklua should run")
    .result()
    .expect("the input should be processed without error");
    resources.get("src/test.luau").unwrap()
}

/// What has to be identical inside type syntax: everything but spacing and parentheses.
#[allow(dead_code)]
fn without_spacing_and_parentheses(code: &str) -> String {
    code.chars()
        .filter(|c| !c.is_whitespace() && *c != '(' && *c != ')')
        .collect()
}

#[test]
fn tokens_that_touch_in_the_source_still_touch_in_the_output() {
    let inputs = [
        // identifier ending with a digit directly followed by `..`
        "local a1, b = 'a', 'b'\nprint(a1..b)\n",
        // nested index: `]` directly followed by `]`
        "local t = { 1 }\nprint(t[t[1]])\n",
        // `..` directly followed by a number
        "return 1 ..2\n",
        // long string directly followed by `]`
        "local t = {}\nreturn t[ [[a]]]\n",
        // long comment directly followed by `]`
        "local t = {}\nreturn t[1 --[[one]]]\n",
    ];

    let mut failures = Vec::new();
    for input in inputs {
        let output = process_without_rules(input);
        if output != input {
            failures.push(format!("input:  {:?}\noutput: {:?}", input, output));
        }
    }

    assert!(
        failures.is_empty(),
        "the output differs from the input:\n{}",
        failures.join("\n")
    );
}
