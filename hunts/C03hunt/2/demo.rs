//! Property C03: with an empty rule list and the default `retain_lines` generator the
//! output is the input, byte for byte (inside Luau type annotations only parentheses and
//! spacing may differ).
use darklua_core::{process, Options, Resources};

/// Runs darklua on one file with `{ rules: [] }` (default generator) and returns what it wrote.
fn process_without_rules(code: &str) -> String {
    let resources = Resources::from_memory();
    resources.write("src/test.luau", code).unwrap();
    resources
        .write(".darklua.json", "{ \"rules\": [] }")
        .unwrap();
    process(
        &resources,
        Options::new("src").with_configuration_at(".darklua.json"),
    )
    .expect("darklua should run")
    .result()
    .expect("the input should be processed without error");
    resources.get("src/test.luau").unwrap()
}

/// What has to be identical inside type syntax: everything but spacing and parentheses.
#[allow(dead_code)]
fn without_spacing_and_parentheses(code: &str) -> String {
    code.chars()
        .filter(|c| !c.is_whitespace() && *c != '(' && *c != ')')
        .collect()
}

#[test]
fn no_semicolon_is_added_after_a_number_that_overflows_to_infinity() {
    // `1e999` is a legal number literal (its value is `math.huge`); a number cannot be
    // called, so `(print)(x)` is a new statement in Lua 5.1 and in Luau
    let input = "local x = 1e999\n(print)(x)\n";
    let output = process_without_rules(input);
    assert_eq!(output, input);
}

#[test]
fn no_semicolon_is_added_after_a_negated_huge_number_in_an_assignment() {
    let input = "local x, t = nil, {}\nx = -1e999\n(t).y = x\n";
    let output = process_without_rules(input);
    assert_eq!(output, input);
}
