// C20: the filter decision must depend on which file it is, not on how the input
// argument was spelled. The same project, the same configuration and the same working
// directory are processed twice with the real binary: once with the input given as `src`
// and once with the input given as the absolute path of that same directory.
use std::fs;
use std::path::Path;

use assert_cmd::Command;

const SOURCE: &str = "--comment\nreturn _G.VALUE\n";

const CONFIG: &str = r#"{
    rules: [
        { rule: "remove_comments", apply_to_files: ["src/**/*.lua"] },
    ],
}"#;

fn darklua(project: &Path, input: &str, output: &str) {
    Command::cargo_bin("darklua")
        .unwrap()
        .current_dir(project)
        .args(["process", input, output])
        .assert()
        .success();
}

#[test]
fn rule_filter_does_not_depend_on_the_spelling_of_the_input() {
    let project = tempfile::tempdir().unwrap();
    let root = project.path().canonicalize().unwrap();

    fs::create_dir_all(root.join("src/nested")).unwrap();
    fs::write(root.join("src/a.lua"), SOURCE).unwrap();
    fs::write(root.join("src/nested/b.lua"), SOURCE).unwrap();
    fs::write(root.join(".darklua.json5"), CONFIG).unwrap();

    // input spelled relatively
    darklua(&root, "src", "out_relative");
    // same directory, spelled with its absolute path
    darklua(&root, root.join("src").to_str().unwrap(), "out_absolute");

    for file in ["a.lua", "nested/b.lua"] {
        let relative = fs::read_to_string(root.join("out_relative").join(file)).unwrap();
        let absolute = fs::read_to_string(root.join("out_absolute").join(file)).unwrap();

        // sanity: `src/**/*.lua` selects the file, so `remove_comments` runs on it
        assert_eq!(relative, "\nreturn _G.VALUE\n", "relative input, file {}", file);
        // the same file with the same configuration has to get the same rule applied
        assert_eq!(
            absolute, relative,
            "`{}` is transformed differently when the input directory is given by its absolute path",
            file
        );
    }
}

#[test]
fn top_level_filter_does_not_depend_on_the_spelling_of_the_input() {
    let project = tempfile::tempdir().unwrap();
    let root = project.path().canonicalize().unwrap();

    fs::create_dir_all(root.join("src")).unwrap();
    fs::write(root.join("src/a.lua"), SOURCE).unwrap();
    fs::write(
        root.join(".darklua.json5"),
        r#"{ apply_to_files: "src/**", rules: ["remove_comments"] }"#,
    )
    .unwrap();

    darklua(&root, "src", "out_relative");
    darklua(&root, root.join("src").to_str().unwrap(), "out_absolute");

    assert!(root.join("out_relative/a.lua").exists());
    assert!(
        root.join("out_absolute/a.lua").exists(),
        "`src/a.lua` matches `src/**` but is skipped when the input is given by its absolute path"
    );
}
