// C20: a file excluded by the top-level `skip_files` / `apply_to_files` is documented as
// "skipped entirely". darklua nevertheless parses it (and bundles it when `bundle` is
// configured) before the filter is consulted, so a vendored file that darklua cannot
// parse (Lua 5.4 attribs, a template, ...) makes the whole run fail although the user
// excluded it precisely for that reason.
use darklua_core::{process, Options, Resources};

const SOURCE: &str = "--comment\nreturn _G.VALUE";
// valid Lua 5.4, not valid for darklua's Lua 5.1 / Luau parser
const LUA_54: &str = "local x <const> = 1\ngoto done\n::done::\nreturn x";

fn errors_of(resources: &Resources, options: Options) -> Vec<String> {
    match process(resources, options) {
        Ok(tree) => match tree.result() {
            Ok(()) => Vec::new(),
            Err(errors) => errors.into_iter().map(|err| err.to_string()).collect(),
        },
        Err(err) => vec![err.to_string()],
    }
}

#[test]
fn top_level_skip_files_skips_a_file_entirely() {
    let resources = Resources::from_memory();
    resources.write("src/a.lua", SOURCE).unwrap();
    resources.write("src/vendor/lib54.lua", LUA_54).unwrap();
    resources
        .write(
            ".darklua.json5",
            r#"{ skip_files: ["**/vendor/**"], rules: ["remove_comments"] }"#,
        )
        .unwrap();

    let errors = errors_of(&resources, Options::new("src").with_output("out"));

    // the selected file is transformed, the skipped one is not written
    assert_eq!(resources.get("out/a.lua").unwrap(), "\nreturn _G.VALUE");
    assert!(!resources.exists("out/vendor/lib54.lua").unwrap());
    // and being skipped, it cannot be the cause of an error
    assert_eq!(errors, Vec::<String>::new());
}

#[test]
fn top_level_apply_to_files_skips_the_other_files_entirely() {
    let resources = Resources::from_memory();
    resources.write("src/a.lua", SOURCE).unwrap();
    resources.write("templates/init.lua", "return <%= value %>").unwrap();
    resources
        .write(
            ".darklua.json5",
            r#"{ apply_to_files: "src/**", rules: ["remove_comments"] }"#,
        )
        .unwrap();

    let errors = errors_of(&resources, Options::new("."));

    assert_eq!(resources.get("src/a.lua").unwrap(), "\nreturn _G.VALUE");
    assert_eq!(resources.get("templates/init.lua").unwrap(), "return <%= value %>");
    assert_eq!(errors, Vec::<String>::new());
}

#[test]
fn skipped_file_is_not_bundled() {
    let resources = Resources::from_memory();
    resources.write("src/a.lua", SOURCE).unwrap();
    // requires a module that does not exist: bundling this file fails
    resources
        .write("src/vendor/b.lua", "return require('./missing')")
        .unwrap();
    resources
        .write(
            ".darklua.json5",
            r#"{ skip_files: "**/vendor/**", bundle: { require_mode: "path" }, rules: [] }"#,
        )
        .unwrap();

    let errors = errors_of(&resources, Options::new("src").with_output("out"));

    assert!(resources.exists("out/a.lua").unwrap());
    assert!(!resources.exists("out/vendor/b.lua").unwrap());
    assert_eq!(errors, Vec::<String>::new());
}
