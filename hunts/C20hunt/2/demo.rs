// C20: darklua normalizes the path of every source (`./src/a.lua` becomes `src/a.lua`)
// before it is compared with the filter patterns, but the patterns themselves are taken
// literally. A pattern written with a leading `./` (the way paths are written everywhere
// else in a darklua configuration, e.g. `sources: { pkg: "./Packages" }`) therefore never
// selects anything - even when the input is spelled `./src` too, so that the path of the
// file as the user typed it (`./src/a.lua`) matches the pattern literally.
use darklua_core::{process, Options, Resources};

const SOURCE: &str = "--comment\nreturn _G.VALUE";
const WITHOUT_COMMENT: &str = "\nreturn _G.VALUE";
const INJECTED: &str = "--comment\nreturn 1";

fn run(input: &str, config: &str) -> (String, String) {
    let resources = Resources::from_memory();
    resources.write("src/a.lua", SOURCE).unwrap();
    resources.write("src/nested/b.lua", SOURCE).unwrap();
    resources.write(".darklua.json5", config).unwrap();

    process(&resources, Options::new(input))
        .unwrap()
        .result()
        .unwrap();

    (
        resources.get("src/a.lua").unwrap(),
        resources.get("src/nested/b.lua").unwrap(),
    )
}

#[test]
fn rule_apply_pattern_with_leading_current_dir() {
    for input in ["./src", "src"] {
        let (a, b) = run(
            input,
            r#"{ rules: [ { rule: "remove_comments", apply_to_files: "./src/**" } ] }"#,
        );
        assert_eq!(a, WITHOUT_COMMENT, "src/a.lua with input `{}`", input);
        assert_eq!(b, WITHOUT_COMMENT, "src/nested/b.lua with input `{}`", input);
    }
}

#[test]
fn rule_skip_pattern_with_leading_current_dir() {
    // the rule must be skipped for `src/nested/b.lua` only
    let (a, b) = run(
        "./src",
        r#"{ rules: [ { rule: "remove_comments", skip_files: ["./src/nested/*.lua"] } ] }"#,
    );
    assert_eq!(a, WITHOUT_COMMENT);
    assert_eq!(b, SOURCE);
}

#[test]
fn top_level_apply_pattern_with_leading_current_dir() {
    let (a, b) = run(
        "./src",
        r#"{
            apply_to_files: ["./src/*.lua"],
            rules: [ { rule: "inject_global_value", identifier: "VALUE", value: 1 } ],
        }"#,
    );
    assert_eq!(a, INJECTED);
    assert_eq!(b, SOURCE);
}

#[test]
fn equivalent_spellings_of_a_pattern_select_the_same_files() {
    // same pattern as in the documentation, spelled with and without `./`
    let plain = run(
        "src",
        r#"{ rules: [ { rule: "remove_comments", apply_to_files: ["src/**/*.lua"] } ] }"#,
    );
    let dotted = run(
        "src",
        r#"{ rules: [ { rule: "remove_comments", apply_to_files: ["./src/**/*.lua"] } ] }"#,
    );
    assert_eq!(plain, (WITHOUT_COMMENT.to_owned(), WITHOUT_COMMENT.to_owned()));
    assert_eq!(dotted, plain);
}
