//! C02: the dense and the readable generators drop the explicit type instantiation
//! attached to a method call (`a:b<<T>>()` is written `a:b()`).
use darklua_core::generator::{DenseLuaGenerator, LuaGenerator, ReadableLuaGenerator};
use darklua_core::nodes::{Block, Expression, FunctionCall, ReturnStatement, Type, TypeName};
use darklua_core::Parser;

fn generate(block: &Block, dense: bool, column_span: usize) -> String {
    if dense {
        let mut generator = DenseLuaGenerator::new(column_span);
        generator.write_block(block);
        generator.into_string()
    } else {
        let mut generator = ReadableLuaGenerator::new(column_span);
        generator.write_block(block);
        generator.into_string()
    }
}

#[test]
fn method_call_type_instantiation_is_written_from_parsed_code() {
    let code = "local x = a:b<<T>>(1)";
    let parser = Parser::default();
    let block = parser.parse(code).expect("input should parse");

    for dense in [true, false] {
        for column_span in [0, 10, 80] {
            let output = generate(&block, dense, column_span);
            let read_back = parser
                .parse(&output)
                .unwrap_or_else(|err| panic!("cannot parse `{}`: {}", output, err));
            assert_eq!(
                block, read_back,
                "dense={} column_span={}: `{}` was written as `{}`",
                dense, column_span, code, output
            );
        }
    }
}

#[test]
fn method_call_type_instantiation_is_written_from_built_tree() {
    let call = FunctionCall::from_name("object")
        .with_type_instantiation_method("method", vec![Type::from(TypeName::new("number"))]);
    assert!(call.has_method_type_instantiation());
    let block = Block::default()
        .with_last_statement(ReturnStatement::one(Expression::from(call)));

    for dense in [true, false] {
        let output = generate(&block, dense, 80);
        assert!(
            output.contains("<<") && output.contains("number"),
            "dense={}: the type instantiation `<<number>>` of the method call is missing in `{}`",
            dense,
            output
        );
    }
}
