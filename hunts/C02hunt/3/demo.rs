//! C02: non-ASCII (UTF-8) string content is written with `\u{XXXX}` escapes. That escape
//! only exists in Luau / Lua 5.3+. A Lua 5.1 lexer does not know `\u`: it drops the
//! backslash and keeps the following characters, so `'\u{e9}'` is the 5 bytes string
//! `u{e9}` and not the 2 bytes string `é`. The literal value changes for Lua 5.1, whereas
//! the decimal escapes used for every other byte (`\195\169`) mean the same in Lua 5.1 and Luau.
use darklua_core::generator::{DenseLuaGenerator, LuaGenerator, ReadableLuaGenerator};
use darklua_core::nodes::{Expression, StringExpression};
use darklua_core::Parser;

#[test]
fn utf8_content_is_written_with_escapes_every_targeted_runtime_understands() {
    // valid Lua 5.1 and Luau source: the string holds the two bytes 0xC3 0xA9
    let code = "return 'caf\u{e9}'";
    let block = Parser::default().parse(code).expect("input should parse");

    let mut dense = DenseLuaGenerator::new(80);
    dense.write_block(&block);
    let mut readable = ReadableLuaGenerator::new(80);
    readable.write_block(&block);

    for output in [dense.into_string(), readable.into_string()] {
        assert!(
            !output.contains("\\u{"),
            "`{}` uses a `\\u{{...}}` escape: Lua 5.1 reads that literal as `cafu{{e9}}`",
            output
        );
    }
}

#[test]
fn single_non_ascii_character() {
    let expression = Expression::from(StringExpression::from_value("\u{25C1}"));
    let mut dense = DenseLuaGenerator::new(80);
    dense.write_expression(&expression);
    let output = dense.into_string();
    // the same three bytes written in a way Lua 5.1 and Luau agree on
    assert_eq!(output, "'\\226\\151\\129'");
}
