//! C02: a long string containing `[[` is written as a level-0 long bracket string
//! (`[[ ... [[ ... ]]`), which the reference Lua 5.1 lexer rejects with
//! "nesting of [[...]] is deprecated" (llex.c read_long_string, LUA_COMPAT_LSTR == 1,
//! the default of luaconf.h). The input is a valid Lua 5.1 program, the output is not.
use darklua_core::generator::{DenseLuaGenerator, LuaGenerator, ReadableLuaGenerator};
use darklua_core::Parser;

/// returns the content of every level-0 long bracket string (`[[...]]`) of `code`
/// (good enough for the generated code below which has no comments or other strings)
fn level_zero_long_strings(code: &str) -> Vec<&str> {
    let mut found = Vec::new();
    let mut rest = code;
    while let Some(start) = rest.find("[[") {
        let after = &rest[start + 2..];
        let end = after.find("]]").expect("unclosed long string");
        found.push(&after[..end]);
        rest = &after[end + 2..];
    }
    found
}

#[test]
fn long_string_does_not_nest_level_zero_brackets() {
    // 70 printable characters, valid in Lua 5.1 and Luau as a quoted string
    let code = "return \"SELECT name FROM users WHERE name = [[bob -- a long query text 0123456789\"";
    let block = Parser::default().parse(code).expect("input should parse");

    for column_span in [0, 40, 80, 120] {
        let mut dense = DenseLuaGenerator::new(column_span);
        dense.write_block(&block);
        let mut readable = ReadableLuaGenerator::new(column_span);
        readable.write_block(&block);

        for output in [dense.into_string(), readable.into_string()] {
            for content in level_zero_long_strings(&output) {
                assert!(
                    !content.contains("[["),
                    "column_span={}: generated `{}` nests `[[` inside a `[[...]]` string: \
                     Lua 5.1 fails with `nesting of [[...]] is deprecated`",
                    column_span,
                    output
                );
            }
        }
    }
}
