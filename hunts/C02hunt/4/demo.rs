//! C02 (end to end: parser/ast_converter -> tree -> dense/readable text): line breaks written
//! as CR LF inside a long bracket string, or after a backslash in a quoted string, are not
//! read the way Lua 5.1 and Luau read them, so the generated code holds a different literal
//! value than the source.
//!
//! Lua 5.1 (llex.c read_long_string/inclinenumber) and Luau (Lexer::fixupMultilineString,
//! fixupQuotedString) both skip a leading CR LF of a long string and turn every CR LF line
//! break into a single "\n".
use darklua_core::generator::{DenseLuaGenerator, LuaGenerator, ReadableLuaGenerator};
use darklua_core::Parser;

fn generate(code: &str) -> (String, String) {
    let block = Parser::default().parse(code).expect("input should parse");
    let mut dense = DenseLuaGenerator::new(80);
    dense.write_block(&block);
    let mut readable = ReadableLuaGenerator::new(80);
    readable.write_block(&block);
    (dense.into_string(), readable.into_string())
}

#[test]
fn long_string_with_windows_line_endings() {
    // the value of this literal is "abc\ndef" for Lua 5.1 and for Luau
    let (dense, readable) = generate("return [[\r\nabc\r\ndef]]");
    assert_eq!(dense, "return'abc\\ndef'");
    assert_eq!(readable, "return 'abc\\ndef'\n");
}

#[test]
fn backslash_followed_by_windows_line_ending() {
    // the value of this literal is "a\nb" for Lua 5.1 and for Luau
    let (dense, readable) = generate("return 'a\\\r\nb'");
    assert_eq!(dense, "return'a\\nb'");
    assert_eq!(readable, "return 'a\\nb'\n");
}
