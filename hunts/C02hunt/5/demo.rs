//! C02: two consecutive string segments of an interpolated string are written one after
//! the other, but the decimal escape of the last byte of the first segment is not protected
//! from a digit starting the second segment: bytes [0x01] followed by "2" are written `\12`,
//! which Luau reads as the single byte 12.
use darklua_core::generator::{DenseLuaGenerator, LuaGenerator, ReadableLuaGenerator};
use darklua_core::nodes::{
    Block, Expression, InterpolatedStringExpression, InterpolationSegment, LastStatement,
    ReturnStatement, StringSegment,
};
use darklua_core::Parser;

fn string_content(block: &Block) -> Vec<u8> {
    let expression = match block.get_last_statement() {
        Some(LastStatement::Return(statement)) => {
            statement.iter_expressions().next().expect("one value")
        }
        _ => panic!("return statement expected"),
    };
    match expression {
        Expression::InterpolatedString(string) => string
            .iter_segments()
            .flat_map(|segment| match segment {
                InterpolationSegment::String(segment) => segment.get_value().to_vec(),
                InterpolationSegment::Value(_) => panic!("no value segment expected"),
            })
            .collect(),
        _ => panic!("interpolated string expected"),
    }
}

#[test]
fn consecutive_string_segments_keep_their_bytes() {
    let string = InterpolatedStringExpression::new(vec![
        StringSegment::from_value([1u8]).into(),
        StringSegment::from_value("2").into(),
    ]);
    let block = Block::default().with_last_statement(ReturnStatement::one(string));
    assert_eq!(string_content(&block), vec![1u8, b'2']);

    let mut dense = DenseLuaGenerator::new(80);
    dense.write_block(&block);
    let mut readable = ReadableLuaGenerator::new(80);
    readable.write_block(&block);

    for output in [dense.into_string(), readable.into_string()] {
        let read_back = Parser::default()
            .parse(&output)
            .unwrap_or_else(|err| panic!("cannot parse `{}`: {}", output, err));
        assert_eq!(
            string_content(&read_back),
            vec![1u8, b'2'],
            "`{}` does not denote the bytes 0x01 0x32",
            output
        );
    }
}
