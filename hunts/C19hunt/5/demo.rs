// C19: a duplicate key is an error, never silently ignored.
//
// Duplicate keys are refused at the top level, in rule objects, in the generator and in the
// require mode objects... but not in the `sources` / `aliases` maps of the require modes:
// the last value silently wins.
use darklua_core::{process, Options, Resources};

fn process_with(config: &str) -> Result<String, String> {
    let resources = Resources::from_memory();
    resources.write(".darklua.json", config).unwrap();
    resources
        .write("src/main.lua", "return require('pkg/value')\n")
        .unwrap();
    resources.write("one/value.lua", "return 'one'\n").unwrap();
    resources.write("two/value.lua", "return 'two'\n").unwrap();
    process(&resources, Options::new("src/main.lua").with_output("out/main.lua"))
        .map_err(|err| err.to_string())?
        .result()
        .map_err(|errors| {
            errors
                .iter()
                .map(ToString::to_string)
                .collect::<Vec<_>>()
                .join("\n")
        })?;
    Ok(resources.get("out/main.lua").unwrap())
}

#[test]
fn sanity_duplicate_key_in_require_mode_is_refused() {
    assert!(process_with(
        "{ rules: [], bundle: { require_mode: { name: 'path', module_folder_name: 'a', module_folder_name: 'b' } } }"
    )
    .is_err());
}

#[test]
fn duplicate_source_in_bundle_require_mode_is_refused() {
    let result = process_with(
        "{ rules: [], bundle: { require_mode: { name: 'path', sources: { pkg: './one', pkg: './two' } } } }",
    );
    assert!(
        result.is_err(),
        "the source `pkg` is defined twice, darklua silently kept one of them:\n{}",
        result.unwrap()
    );
}

#[test]
fn duplicate_alias_in_convert_require_is_refused() {
    let result = process_with(
        "{ rules: [{ rule: 'convert_require', current: { name: 'luau', aliases: { pkg: './one', pkg: './two' } }, target: 'path' }] }",
    );
    assert!(
        result.is_err(),
        "the alias `pkg` is defined twice, darklua silently kept one of them:\n{}",
        result.unwrap()
    );
}
