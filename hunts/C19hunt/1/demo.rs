// C19: an unknown property must be an error, never silently ignored.
//
// `generator: { name: 'retain_lines', column_span: 40 }` is accepted although the
// retain_lines generator has no `column_span` (nor any other) property, and
// `indexing_style: { name: 'property', bogus: 1 }` is accepted too.
use darklua_core::{process, Options, Resources};

fn process_with(config: &str) -> Result<String, String> {
    let resources = Resources::from_memory();
    resources.write(".darklua.json", config).unwrap();
    resources.write("src/a.lua", "return 1\n").unwrap();
    process(&resources, Options::new("src").with_output("out"))
        .map_err(|err| err.to_string())?
        .result()
        .map_err(|errors| {
            errors
                .iter()
                .map(ToString::to_string)
                .collect::<Vec<_>>()
                .join("\n")
        })?;
    Ok(resources.get("out/a.lua").unwrap())
}

#[test]
fn sanity_unknown_property_of_dense_generator_is_refused() {
    assert!(process_with("{ rules: [], generator: { name: 'dense', bogus: 40 } }").is_err());
}

#[test]
fn unknown_property_of_retain_lines_generator_is_refused() {
    let result = process_with("{ rules: [], generator: { name: 'retain_lines', column_span: 40 } }");
    assert!(
        result.is_err(),
        "`column_span` is not a property of the retain_lines generator, but the configuration was accepted (output: {:?})",
        result
    );
}

#[test]
fn misspelt_property_of_retain_lines_generator_is_refused() {
    let result = process_with("{ rules: [], generator: { name: 'retain_lines', bogus: true } }");
    assert!(result.is_err(), "unknown property `bogus` was silently ignored");
}

#[test]
fn unknown_property_of_indexing_style_is_refused() {
    let result = process_with(
        "{ rules: [{ rule: 'convert_require', current: 'path', target: { name: 'roblox', indexing_style: { name: 'property', bogus: 1 } } }] }",
    );
    assert!(
        result.is_err(),
        "unknown property `bogus` of the indexing style was silently ignored"
    );
}
