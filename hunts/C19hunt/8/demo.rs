// C19: ill-typed rule properties are errors.
//
// The `current` and `target` properties of `convert_require` are a require mode name
// ('path', 'luau', 'roblox') or an object `{ name: <that name>, ... }`. Numbers in place of
// the name and arrays in place of the object are accepted.
use darklua_core::Configuration;

fn read(config: &str) -> Result<String, String> {
    json5::from_str::<Configuration>(config)
        .map(|configuration| serde_json::to_string(&configuration).unwrap())
        .map_err(|err| err.to_string())
}

#[test]
fn sanity_ill_typed_require_modes_are_refused() {
    assert!(read("{ rules: [{ rule: 'convert_require', current: 0, target: 'roblox' }] }").is_err());
    assert!(read("{ rules: [{ rule: 'convert_require', current: ['path'], target: 'roblox' }] }").is_err());
    assert!(read("{ rules: [{ rule: 'convert_require', current: { name: true }, target: 'roblox' }] }").is_err());
    // the same thing is refused where the require mode is not read through a rule property
    assert!(read("{ bundle: { require_mode: { name: 0 } } }").is_err());
}

#[test]
fn number_as_require_mode_name_is_refused() {
    let result = read("{ rules: [{ rule: 'convert_require', current: { name: 0 }, target: { name: 2 } }] }");
    assert!(result.is_err(), "accepted and read as {}", result.unwrap());
}

#[test]
fn array_as_require_mode_is_refused() {
    let result = read("{ rules: [{ rule: 'convert_require', current: [1], target: 'roblox' }] }");
    assert!(result.is_err(), "accepted and read as {}", result.unwrap());
}

#[test]
fn array_with_positional_fields_as_require_mode_is_refused() {
    let result = read(
        "{ rules: [{ rule: 'convert_require', current: ['path', 'index', {}, false], target: [1, false, { pkg: './Packages' }] }] }",
    );
    assert!(result.is_err(), "accepted and read as {}", result.unwrap());
}

#[test]
fn number_as_indexing_style_name_is_refused() {
    let result = read(
        "{ rules: [{ rule: 'convert_require', current: 'path', target: { name: 'roblox', indexing_style: { name: 2 } } }] }",
    );
    assert!(result.is_err(), "accepted and read as {}", result.unwrap());
}
