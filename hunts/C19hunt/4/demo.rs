// C19: invalid patterns are errors, never silently ignored.
//
// `bundle.excludes` takes glob patterns (same syntax as `apply_to_files`). An invalid
// pattern in `apply_to_files` is an error, but an invalid pattern in `bundle.excludes` is
// dropped (a warning is logged) and the require it was meant to protect is bundled.
use darklua_core::{process, Options, Resources};

fn process_with(config: &str) -> Result<String, String> {
    let resources = Resources::from_memory();
    resources.write(".darklua.json", config).unwrap();
    resources
        .write("src/main.lua", "local secrets = require('./secrets')\nreturn secrets\n")
        .unwrap();
    resources.write("src/secrets.lua", "return 'TOKEN'\n").unwrap();
    process(&resources, Options::new("src/main.lua").with_output("out/main.lua"))
        .map_err(|err| err.to_string())?
        .result()
        .map_err(|errors| {
            errors
                .iter()
                .map(ToString::to_string)
                .collect::<Vec<_>>()
                .join("\n")
        })?;
    Ok(resources.get("out/main.lua").unwrap())
}

#[test]
fn sanity_invalid_pattern_in_apply_to_files_is_refused() {
    assert!(process_with("{ rules: [], apply_to_files: ['**/{secrets'] }").is_err());
}

#[test]
fn sanity_valid_exclude_pattern_is_applied() {
    let output =
        process_with("{ rules: [], bundle: { require_mode: 'path', excludes: ['**/secrets'] } }")
            .unwrap();
    assert!(!output.contains("TOKEN"), "{}", output);
}

#[test]
fn invalid_pattern_in_bundle_excludes_is_refused() {
    // the closing brace of the alternative is missing
    let result =
        process_with("{ rules: [], bundle: { require_mode: 'path', excludes: ['**/{secrets'] } }");
    assert!(
        result.is_err(),
        "the invalid exclude pattern was ignored and the module was bundled:\n{}",
        result.unwrap()
    );
}
