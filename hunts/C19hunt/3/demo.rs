// C19: serializing any accepted configuration and reading it back gives a configuration
// that transforms every file identically.
//
// `{ rule: 'convert_require', current: 'path', target: 'roblox' }` is accepted, but it is
// serialized as the bare string "convert_require", which darklua refuses to read
// (`current` and `target` are required properties).
use darklua_core::{process, Configuration, Options, Resources};

fn run(configuration: Configuration) -> String {
    let resources = Resources::from_memory();
    resources
        .write("src/a.lua", "local b = require('./b.lua')\nreturn b\n")
        .unwrap();
    resources.write("src/b.lua", "return 1\n").unwrap();
    process(
        &resources,
        Options::new("src")
            .with_output("out")
            .with_configuration(configuration),
    )
    .unwrap()
    .result()
    .unwrap();
    resources.get("out/a.lua").unwrap()
}

fn check_round_trip(text: &str) {
    let configuration: Configuration = json5::from_str(text).expect("configuration is valid");
    let serialized = serde_json::to_string(&configuration).unwrap();

    let read_back: Configuration = json5::from_str(&serialized).unwrap_or_else(|err| {
        panic!(
            "darklua cannot read the configuration it wrote\n  written: {}\n  error: {}",
            serialized, err
        )
    });

    assert_eq!(run(configuration), run(read_back));
}

#[test]
fn sanity_non_default_modes_round_trip() {
    check_round_trip("{ rules: [{ rule: 'convert_require', current: 'luau', target: 'roblox' }] }");
}

#[test]
fn path_to_roblox_round_trips() {
    check_round_trip("{ rules: [{ rule: 'convert_require', current: 'path', target: 'roblox' }] }");
}

#[test]
fn path_to_roblox_with_filter_round_trips() {
    check_round_trip(
        "{ rules: [{ rule: 'convert_require', current: { name: 'path' }, target: { name: 'roblox' }, skip_files: '**/*.spec.lua' }] }",
    );
}
