// C19: a configuration means exactly what it says, serializing it and reading it back gives
// a configuration that transforms every file identically, and two configurations that
// behave differently never serialize to the same text.
//
// JSON5 has `Infinity`, `-Infinity` and `NaN`. `inject_global_value` accepts them
// (`value: Infinity` injects `1/0`), but
//  * nested in an array or an object they are silently read as `null` (`nil` is injected);
//  * at the top level they are serialized as `null`, the text of another configuration.
use darklua_core::{process, Configuration, Options, Resources};

fn run(configuration: Configuration) -> String {
    let resources = Resources::from_memory();
    resources.write("src/a.lua", "return LIMIT\n").unwrap();
    process(
        &resources,
        Options::new("src")
            .with_output("out")
            .with_configuration(configuration),
    )
    .unwrap()
    .result()
    .unwrap();
    resources.get("out/a.lua").unwrap().trim_end().to_owned()
}

fn config(value: &str) -> Result<Configuration, String> {
    json5::from_str(&format!(
        "{{ rules: [{{ rule: 'inject_global_value', identifier: 'LIMIT', value: {} }}] }}",
        value
    ))
    .map_err(|err| err.to_string())
}

#[test]
fn sanity_infinity_is_an_accepted_value() {
    assert_eq!(run(config("Infinity").unwrap()), "return 1/0");
    assert_eq!(run(config("[1.5, 1]").unwrap()), "return {1.5, 1}");
}

#[test]
fn infinity_nested_in_an_array_is_not_nil() {
    // refusing the configuration would be fine too
    if let Ok(configuration) = config("[Infinity, 1]") {
        assert_eq!(run(configuration), "return {1/0, 1}");
    }
}

#[test]
fn nan_nested_in_an_object_is_not_nil() {
    if let Ok(configuration) = config("{ ratio: NaN }") {
        assert_eq!(run(configuration), "return {ratio=0/0}");
    }
}

#[test]
fn infinity_round_trips() {
    let serialized = serde_json::to_string(&config("Infinity").unwrap()).unwrap();
    let read_back: Configuration = json5::from_str(&serialized).unwrap();

    assert_eq!(
        run(read_back),
        run(config("Infinity").unwrap()),
        "the configuration was written as {}",
        serialized
    );
}

#[test]
fn different_values_serialize_to_different_texts() {
    // this text is what the watch mode hashes to find out if the configuration changed
    // (WorkerTree::has_configuration_changed)
    let text = |value: &str| {
        serde_json::to_string(&config(value).unwrap()).map_err(|err| err.to_string())
    };

    assert_ne!(run(config("Infinity").unwrap()), run(config("null").unwrap()));
    assert_ne!(run(config("NaN").unwrap()), run(config("null").unwrap()));
    assert_ne!(text("Infinity"), text("null"));
    assert_ne!(text("NaN"), text("null"));
}
