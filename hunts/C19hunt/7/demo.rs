// C19: a configuration means exactly what it says.
//
// The `value` of `inject_global_value` is documented as "any" value. When the value happens
// to look like a require mode (an object whose `name` is 'path', 'luau' or 'roblox', or an
// array starting with 0 or 1), it is read as a require mode of `convert_require` and what is
// injected is the serialization of that require mode: properties are added and renamed.
use darklua_core::{process, Options, Resources};

fn inject(value: &str) -> String {
    let resources = Resources::from_memory();
    resources
        .write(
            ".darklua.json",
            &format!(
                "{{ rules: [{{ rule: 'inject_global_value', identifier: 'VALUE', value: {} }}] }}",
                value
            ),
        )
        .unwrap();
    resources.write("src/a.lua", "return VALUE\n").unwrap();
    process(&resources, Options::new("src").with_output("out"))
        .unwrap()
        .result()
        .unwrap();
    resources.get("out/a.lua").unwrap().trim_end().to_owned()
}

#[test]
fn sanity_other_values_are_injected_as_written() {
    assert_eq!(inject("{ name: 'other' }"), "return {name='other'}");
    assert_eq!(inject("[2]"), "return {2}");
    assert_eq!(inject("[3, false]"), "return {3, false}");
}

#[test]
fn object_with_a_name_is_injected_as_written() {
    assert_eq!(inject("{ name: 'path' }"), "return {name='path'}");
}

#[test]
fn object_with_name_and_sources_is_injected_as_written() {
    assert_eq!(
        inject("{ name: 'luau', sources: { a: 'b' } }"),
        "return {name='luau', sources={a='b'}}"
    );
}

#[test]
fn array_with_the_number_one_is_injected_as_written() {
    assert_eq!(inject("[1]"), "return {1}");
}

#[test]
fn array_with_a_number_and_a_boolean_is_injected_as_written() {
    assert_eq!(inject("[1, false]"), "return {1, false}");
}
