// C19: a configuration means exactly what it says and round-trips without loss.
//
// `{ rule: 'rename_variables', globals: [] }` says "avoid no identifier" (this is also the
// text darklua itself writes for `RenameVariables::new(empty())`), but reading it keeps the
// whole `$default` group: the list given in the file is added to the default list instead
// of replacing it.
use darklua_core::rules::{RenameVariables, Rule};
use darklua_core::{process, Configuration, Options, Resources};

fn source() -> String {
    // enough variables in one scope for the generated names to reach `io`, `os` and `_G`
    let mut code = String::new();
    for i in 0..4000 {
        code.push_str(&format!("local v{} = {}\n", i, i));
    }
    code
}

fn run(configuration: Configuration) -> String {
    let resources = Resources::from_memory();
    resources.write("src/a.lua", &source()).unwrap();
    process(
        &resources,
        Options::new("src")
            .with_output("out")
            .with_configuration(configuration),
    )
    .unwrap()
    .result()
    .unwrap();
    resources.get("out/a.lua").unwrap()
}

fn declares(output: &str, name: &str) -> bool {
    output
        .lines()
        .any(|line| line.starts_with(&format!("local {} =", name)))
}

#[test]
fn rule_without_globals_round_trips() {
    let rule: Box<dyn Rule> = Box::new(RenameVariables::new(std::iter::empty()));
    let serialized = serde_json::to_string(&rule).unwrap();
    assert_eq!(serialized, r#"{"rule":"rename_variables","globals":[]}"#);

    let read_back: Box<dyn Rule> = json5::from_str(&serialized).unwrap();
    assert_eq!(
        serde_json::to_string(&read_back).unwrap(),
        serialized,
        "serializing the rule and reading it back gives another rule"
    );
}

#[test]
fn empty_globals_list_means_no_globals() {
    let text = "{ rules: [{ rule: 'rename_variables', globals: [] }] }";

    let from_text = run(json5::from_str(text).unwrap());
    let from_api = run(
        Configuration::empty().with_rule(Box::new(RenameVariables::new(std::iter::empty()))
            as Box<dyn Rule>),
    );

    // sanity: without globals to avoid, the names `io` and `os` are used
    assert!(declares(&from_api, "io") && declares(&from_api, "os"));

    assert!(
        declares(&from_text, "io") && declares(&from_text, "os"),
        "`globals: []` still avoids the identifiers of the `$default` group"
    );
    assert!(from_text == from_api, "both configurations serialize to the same text but transform the file differently");
}

#[test]
fn globals_list_replaces_the_default_list() {
    // the documentation gives `['$default']` as the default value of `globals` and spells
    // out `$default` in every example that wants it
    let rule: Box<dyn Rule> =
        json5::from_str("{ rule: 'rename_variables', globals: ['$roblox'] }").unwrap();
    assert_eq!(
        serde_json::to_string(&rule).unwrap(),
        r#"{"rule":"rename_variables","globals":["$roblox"]}"#
    );
}
