use darklua_core::generator::{DenseLuaGenerator, LuaGenerator};
use darklua_core::rules::{ContextBuilder, Rule};
use darklua_core::{Parser, Resources};

/// Applies the given rules (by name, default configuration) and regenerates the code on one line.
fn lower(rule_names: &[&str], code: &str) -> String {
    let resources = Resources::from_memory();
    resources.write("src/test.luau", code).unwrap();
    let context = ContextBuilder::new("src/test.luau", &resources, code).build();
    let mut block = Parser::default().parse(code).expect("input should parse");
    for name in rule_names {
        let rule: Box<dyn Rule> = name.parse().expect("rule name");
        rule.process(&mut block, &context).expect("rule should succeed");
    }
    let mut generator = DenseLuaGenerator::new(100_000);
    generator.write_block(&block);
    generator.into_string()
}

// C06: the temporary variable introduced by remove_compound_assignment is only checked against
// *local* declarations. When the right-hand side of the compound assignment reads a global
// variable (or writes one, in a nested function) that has the same name, the generated
// `local __DARKLUA_VAR` captures that reference: the variable does not refer to the same binding
// anymore.
const INPUT: &str = "
__DARKLUA_VAR = 5
config.window.width += __DARKLUA_VAR
";

#[test]
fn generated_temporary_does_not_capture_a_global_of_the_same_name() {
    let lowered = lower(&["remove_compound_assignment"], INPUT);
    assert!(!lowered.contains("+="), "compound assignment removed: {}", lowered);

    // rename_variables renames every local binding (and its references) but not the globals:
    // the global `__DARKLUA_VAR` is written once and read once in the original, so exactly two
    // occurrences must survive. After the lowering, the read in the right-hand side is captured
    // by the generated local and gets renamed with it.
    let original_renamed = lower(&["rename_variables"], INPUT);
    assert_eq!(original_renamed.matches("__DARKLUA_VAR").count(), 2, "{}", original_renamed);

    let renamed = lower(&["remove_compound_assignment", "rename_variables"], INPUT);
    assert_eq!(
        renamed.matches("__DARKLUA_VAR").count(),
        2,
        "the read of the global `__DARKLUA_VAR` was captured by the generated local.\nlowered: {}\nlowered+renamed: {}",
        lowered,
        renamed
    );
}
