use darklua_core::generator::{DenseLuaGenerator, LuaGenerator};
use darklua_core::rules::{ContextBuilder, Rule};
use darklua_core::{Parser, Resources};

/// Applies the given rules (by name, default configuration) and regenerates the code on one line.
fn lower(rule_names: &[&str], code: &str) -> String {
    let resources = Resources::from_memory();
    resources.write("src/test.luau", code).unwrap();
    let context = ContextBuilder::new("src/test.luau", &resources, code).build();
    let mut block = Parser::default().parse(code).expect("input should parse");
    for name in rule_names {
        let rule: Box<dyn Rule> = name.parse().expect("rule name");
        rule.process(&mut block, &context).expect("rule should succeed");
    }
    let mut generator = DenseLuaGenerator::new(100_000);
    generator.write_block(&block);
    generator.into_string()
}

// C06: the lowering of interpolated strings and floor divisions relies on the *global*
// variables `tostring`, `string` and `math`, but only local declarations are tracked to decide
// whether these names still designate the standard library. A program that rebinds the global
// (`function tostring(...)`, `tostring = ...`, `math = nil`, ...) behaves differently once lowered,
// because Luau's interpolated strings and `//` operator never go through these globals.
const INPUT_TOSTRING: &str = "
local original = tostring
function tostring(value)
    return `<{original(value)}>`
end
print(tostring(1))
";

const INPUT_MATH: &str = "
local floor = math.floor
math = nil
print(7 // 2)
";

#[test]
fn interpolated_string_inside_a_redefined_global_tostring() {
    let lowered = lower(&["remove_interpolated_string"], INPUT_TOSTRING);
    assert!(!lowered.contains('`'), "interpolated string removed: {}", lowered);
    // Luau prints `<1>`. In the lowered code the body of the new global `tostring` function
    // calls the global `tostring`, i.e. itself: infinite recursion (stack overflow).
    assert!(
        !lowered.contains("tostring((original(value)))") && !lowered.contains("tostring(original(value))"),
        "the redefined global `tostring` now calls itself recursively: {}",
        lowered
    );
}

#[test]
fn floor_division_after_the_global_math_is_cleared() {
    let lowered = lower(&["remove_floor_division"], INPUT_MATH);
    assert!(!lowered.contains("//"), "floor division removed: {}", lowered);
    // Luau prints 3. The lowered code must not read `math.floor` after `math = nil`.
    let clear = lowered.find("math=nil").expect("assignment kept");
    assert!(
        !lowered[clear + "math=nil".len()..].contains("math.floor"),
        "`math.floor` is read after the program assigned nil to the global `math`: {}",
        lowered
    );
}
