use darklua_core::generator::{DenseLuaGenerator, LuaGenerator};
use darklua_core::rules::{ContextBuilder, Rule};
use darklua_core::{Parser, Resources};

/// Applies the given rules (by name, default configuration) and regenerates the code on one line.
fn lower(rule_names: &[&str], code: &str) -> String {
    let resources = Resources::from_memory();
    resources.write("src/test.luau", code).unwrap();
    let context = ContextBuilder::new("src/test.luau", &resources, code).build();
    let mut block = Parser::default().parse(code).expect("input should parse");
    for name in rule_names {
        let rule: Box<dyn Rule> = name.parse().expect("rule name");
        rule.process(&mut block, &context).expect("rule should succeed");
    }
    let mut generator = DenseLuaGenerator::new(100_000);
    generator.write_block(&block);
    generator.into_string()
}

// C06: for `tbl[key()] += 1` Luau evaluates the table expression `tbl` first, then the key
// `key()`, then reads and writes the element of the table obtained in the first step.
// remove_compound_assignment only stores the key in a temporary and re-reads the identifier
// `tbl` afterwards: when `tbl` is a global that `key()` rebinds, the read and the write now
// target another table (the evaluation order of the prefix and of the key is swapped).
const INPUT: &str = "
tbl = { 0 }
local first = tbl
function key()
    tbl = { 10 }
    return 1
end
tbl[key()] += 1
print(first[1], tbl[1])
";

#[test]
fn table_is_evaluated_before_the_key_with_side_effects() {
    let lowered = lower(&["remove_compound_assignment"], INPUT);
    assert!(!lowered.contains("+="), "compound assignment removed: {}", lowered);

    // Luau prints `1 10` (the element of the first table is incremented). Look at the code
    // produced for the compound assignment: the global `tbl` has to be read before `key()` is
    // called, otherwise the second table is the one modified and the program prints `0 11`.
    let statement = &lowered[lowered.find("end").expect("end of function key") + 3..];
    let call = statement.find("key()").expect("key() is still called");
    let table_read = statement.find("tbl").expect("tbl is still read");
    assert!(
        table_read < call,
        "the global `tbl` is read after `key()` was called: {}",
        statement
    );
}
