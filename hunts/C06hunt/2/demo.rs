use darklua_core::generator::{DenseLuaGenerator, LuaGenerator};
use darklua_core::rules::{ContextBuilder, Rule};
use darklua_core::{Parser, Resources};

/// Applies the given rules (by name, default configuration) and regenerates the code on one line.
fn lower(rule_names: &[&str], code: &str) -> String {
    let resources = Resources::from_memory();
    resources.write("src/test.luau", code).unwrap();
    let context = ContextBuilder::new("src/test.luau", &resources, code).build();
    let mut block = Parser::default().parse(code).expect("input should parse");
    for name in rule_names {
        let rule: Box<dyn Rule> = name.parse().expect("rule name");
        rule.process(&mut block, &context).expect("rule should succeed");
    }
    let mut generator = DenseLuaGenerator::new(100_000);
    generator.write_block(&block);
    generator.into_string()
}

// C06: remove_interpolated_string (default `string` strategy) converts every interpolated value
// with `tostring(...)` *at the position of the value*, so the string conversion of an earlier
// value (which can run a `__tostring` metamethod, i.e. user code that reads mutable state) now
// happens BEFORE the later values are evaluated. Luau evaluates all the interpolated
// expressions first and only then converts them (the string is compiled to
// `("%* %*"):format(obj, bump())`, conversions happen inside `format`).
const INPUT: &str = "
local obj = setmetatable({ n = 0 }, {
    __tostring = function(self)
        return 'n=' .. self.n
    end,
})
local function bump()
    obj.n = obj.n + 1
    return obj.n
end
print(`{obj} {bump()}`)
";

#[test]
fn interpolated_values_are_all_evaluated_before_any_conversion() {
    let lowered = lower(&["remove_interpolated_string"], INPUT);
    assert!(!lowered.contains('`'), "interpolated string removed: {}", lowered);

    // Luau prints `n=1 1`: `obj` is converted to a string after `bump()` ran.
    // If the lowered code applies `tostring` directly to the expression `obj` in an argument
    // that is evaluated before the argument containing `bump()`, `__tostring` runs before
    // `bump()` and the program prints `n=0 1`.
    let conversion = lowered.find("tostring(obj)");
    let later_value = lowered.find("bump())").expect("bump() is still called");
    assert!(
        conversion.is_none_or(|conversion| conversion > later_value),
        "`obj` is converted with tostring (running __tostring) before `bump()` is evaluated: {}",
        lowered
    );
}
