use darklua_core::generator::{DenseLuaGenerator, LuaGenerator};
use darklua_core::rules::{ContextBuilder, Rule};
use darklua_core::{Parser, Resources};

/// Applies the given rules (by name, default configuration) and regenerates the code on one line.
fn lower(rule_names: &[&str], code: &str) -> String {
    let resources = Resources::from_memory();
    resources.write("src/test.luau", code).unwrap();
    let context = ContextBuilder::new("src/test.luau", &resources, code).build();
    let mut block = Parser::default().parse(code).expect("input should parse");
    for name in rule_names {
        let rule: Box<dyn Rule> = name.parse().expect("rule name");
        rule.process(&mut block, &context).expect("rule should succeed");
    }
    let mut generator = DenseLuaGenerator::new(100_000);
    generator.write_block(&block);
    generator.into_string()
}

// C06: remove_floor_division lowers `//=` statements with a *fresh* remove_compound_assignment
// processor (RemoveCompoundAssignment::replace_compound_assignment) that knows nothing about the
// locals declared around the statement. The generated temporary can therefore shadow a local of
// the enclosing scopes that the statement uses, which remove_compound_assignment itself avoids.
const INPUT: &str = "
local __DARKLUA_VAR = 2
stats.total.count //= __DARKLUA_VAR
return stats.total.count
";

#[test]
fn floor_division_compound_assignment_does_not_shadow_a_local_it_uses() {
    // remove_compound_assignment on its own picks a free name
    let reference = lower(&["remove_compound_assignment"], INPUT);
    assert!(
        reference.contains("local __DARKLUA_VAR0=stats.total"),
        "remove_compound_assignment avoids the local in scope: {}",
        reference
    );

    let lowered = lower(&["remove_floor_division"], INPUT);
    assert!(!lowered.contains("//"), "floor division removed: {}", lowered);
    // the divisor `__DARKLUA_VAR` must still be the user's local (2), so the temporary holding
    // `stats.total` must not be declared with the same name in the block that evaluates it
    assert!(
        !lowered.contains("local __DARKLUA_VAR=stats.total"),
        "the temporary shadows the local `__DARKLUA_VAR` used as the divisor: {}",
        lowered
    );
}
