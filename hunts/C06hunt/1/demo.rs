use darklua_core::generator::{DenseLuaGenerator, LuaGenerator};
use darklua_core::rules::{ContextBuilder, Rule};
use darklua_core::{Parser, Resources};

/// Applies the given rules (by name, default configuration) and regenerates the code on one line.
fn lower(rule_names: &[&str], code: &str) -> String {
    let resources = Resources::from_memory();
    resources.write("src/test.luau", code).unwrap();
    let context = ContextBuilder::new("src/test.luau", &resources, code).build();
    let mut block = Parser::default().parse(code).expect("input should parse");
    for name in rule_names {
        let rule: Box<dyn Rule> = name.parse().expect("rule name");
        rule.process(&mut block, &context).expect("rule should succeed");
    }
    let mut generator = DenseLuaGenerator::new(100_000);
    generator.write_block(&block);
    generator.into_string()
}

// C06: `continue` in a `repeat` loop whose `until` condition reads a local declared in the
// loop body. In Luau (and Lua 5.1) the `until` condition is evaluated in the scope of the body,
// so `until bodyLocal` reads the local. After `remove_continue`, the body is moved inside an inner
// `repeat ... until true`, so `bodyLocal` goes out of scope before the outer `until` and the
// condition now reads the *global* `bodyLocal` (nil): the loop never stops / stops at the
// wrong time.
//
// The check is structural and independent of the shape of the lowering: `rename_variables`
// renames every local binding and all its references but leaves globals untouched, so if
// the name `bodyLocal` survives, some reference to it resolves to a global variable.
const INPUT: &str = "
local n = 0
repeat
    n = n + 1
    local bodyLocal = next_item(n)
    if skip(bodyLocal) then
        continue
    end
    use(bodyLocal)
until bodyLocal
";

#[test]
fn sanity_original_until_condition_reads_the_body_local() {
    let renamed = lower(&["rename_variables"], INPUT);
    assert!(
        !renamed.contains("bodyLocal"),
        "in the original every `bodyLocal` is a local reference: {}",
        renamed
    );
}

#[test]
fn remove_continue_keeps_until_condition_bound_to_body_local() {
    let lowered = lower(&["remove_continue"], INPUT);
    assert!(!lowered.contains("continue"), "continue removed: {}", lowered);
    let renamed = lower(&["remove_continue", "rename_variables"], INPUT);
    assert!(
        !renamed.contains("bodyLocal"),
        "after remove_continue a reference to `bodyLocal` resolves to a GLOBAL variable.\nlowered: {}\nlowered+renamed: {}",
        lowered,
        renamed
    );
}
