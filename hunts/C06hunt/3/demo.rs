use darklua_core::generator::{DenseLuaGenerator, LuaGenerator};
use darklua_core::rules::{ContextBuilder, Rule};
use darklua_core::{Parser, Resources};

/// Applies the given rules (by name, default configuration) and regenerates the code on one line.
fn lower(rule_names: &[&str], code: &str) -> String {
    let resources = Resources::from_memory();
    resources.write("src/test.luau", code).unwrap();
    let context = ContextBuilder::new("src/test.luau", &resources, code).build();
    let mut block = Parser::default().parse(code).expect("input should parse");
    for name in rule_names {
        let rule: Box<dyn Rule> = name.parse().expect("rule name");
        rule.process(&mut block, &context).expect("rule should succeed");
    }
    let mut generator = DenseLuaGenerator::new(100_000);
    generator.write_block(&block);
    generator.into_string()
}

// C06: `a // b` is lowered to `math.floor(a / b)`. That is only equivalent for numbers: on a
// table (or userdata) operand Luau dispatches `//` to the `__idiv` metamethod, while `/`
// dispatches to `__div`, and `math.floor` rejects anything that is not a number. An error-free
// Luau program using `__idiv` (or `vector // number`) errors after the lowering.
const INPUT: &str = "
local Meters = {}
Meters.__index = Meters
Meters.__idiv = function(left, right)
    report('idiv', left.value, right)
    return setmetatable({ value = left.value // right }, Meters)
end
local distance = setmetatable({ value = 7 }, Meters)
local half = distance // 2
report('result', half.value)
";

#[test]
fn floor_division_on_a_table_still_uses_the_idiv_metamethod() {
    let lowered = lower(&["remove_floor_division"], INPUT);
    assert!(!lowered.contains("//"), "floor division removed: {}", lowered);

    // `distance` is a table whose metatable only defines `__idiv`: any lowering that applies
    // the `/` operator to it raises `attempt to perform arithmetic (div) on table and number`
    // (and `math.floor(<table>)` would raise too) where the original called `__idiv` once.
    assert!(
        !lowered.contains("distance/2"),
        "`distance // 2` became a plain division wrapped in math.floor, `__idiv` is never called: {}",
        lowered
    );
}
