//! C11: a batch where a rule asks for the processed content of another file of the batch
//! (`Rule::require_content`, the public hook for a rule that needs other files of the batch)
//! never terminates when the dependency is enumerated after the file that needs it, or when
//! the dependency fails: a failing file blocks every file that waits for it, and the whole
//! run, forever, instead of being reported while the other files are processed.
use std::path::{Path, PathBuf};
use std::sync::mpsc;
use std::time::Duration;

use darklua_core::{
    nodes::Block,
    rules::{
        Context, Rule, RuleConfiguration, RuleConfigurationError, RuleMetadata, RuleProcessResult,
        RuleProperties,
    },
    Configuration, Options, Resources, WorkerTree,
};

/// `src/a.lua` needs the processed `src/b.lua`
#[derive(Debug, Default)]
struct NeedsB {
    metadata: RuleMetadata,
}

impl RuleConfiguration for NeedsB {
    fn configure(&mut self, _: RuleProperties) -> Result<(), RuleConfigurationError> {
        Ok(())
    }
    fn get_name(&self) -> &'static str {
        "needs-b"
    }
    fn serialize_to_properties(&self) -> RuleProperties {
        Default::default()
    }
    fn set_metadata(&mut self, metadata: RuleMetadata) {
        self.metadata = metadata;
    }
    fn metadata(&self) -> &RuleMetadata {
        &self.metadata
    }
}

impl Rule for NeedsB {
    fn process(&self, _: &mut Block, _: &Context) -> RuleProcessResult {
        Ok(())
    }
    fn require_content(&self, current: &Path, _: &Block) -> Vec<PathBuf> {
        if current.ends_with("a.lua") {
            vec!["src/b.lua".into()]
        } else {
            Vec::new()
        }
    }
}

type Outcome = (usize, Vec<String>, Option<String>, Option<String>);

/// runs the batch with the sources enumerated in the given order; None if it does not finish
fn run(order: &'static [&'static str], b_content: &'static str) -> Option<Outcome> {
    let (sender, receiver) = mpsc::channel();
    std::thread::spawn(move || {
        let resources = Resources::from_memory();
        resources.write("src/a.lua", "return 'a'\n").unwrap();
        resources.write("src/b.lua", b_content).unwrap();
        resources.write("src/c.lua", "return 'c'\n").unwrap();

        let rule: Box<dyn Rule> = Box::new(NeedsB::default());
        let mut tree = WorkerTree::default();
        for source in order {
            let output = Path::new("out").join(Path::new(source).file_name().unwrap());
            tree.add_source(source, Some(output));
        }
        tree.process(
            &resources,
            Options::new("src")
                .with_output("out")
                .with_configuration(Configuration::empty().with_rule(rule)),
        )
        .unwrap();

        let _ = sender.send((
            tree.success_count(),
            tree.collect_errors()
                .into_iter()
                .map(ToString::to_string)
                .collect(),
            resources.get("out/a.lua").ok(),
            resources.get("out/c.lua").ok(),
        ));
    });
    receiver.recv_timeout(Duration::from_secs(15)).ok()
}

const ORDERS: [&[&str]; 2] = [
    &["src/a.lua", "src/b.lua", "src/c.lua"],
    &["src/c.lua", "src/b.lua", "src/a.lua"],
];

#[test]
fn valid_dependency_finishes_whatever_the_order() {
    for order in ORDERS {
        let outcome = run(order, "return 'b'\n")
            .unwrap_or_else(|| panic!("the run never finished with the order {:?}", order));
        assert_eq!(outcome.0, 3, "{:?}", outcome);
        assert_eq!(outcome.2.as_deref(), Some("return 'a'\n"));
        assert_eq!(outcome.3.as_deref(), Some("return 'c'\n"));
    }
}

#[test]
fn failing_dependency_is_reported_and_the_other_files_are_processed() {
    for order in ORDERS {
        // b.lua has a syntax error
        let outcome = run(order, "return (\n")
            .unwrap_or_else(|| panic!("the run never finished with the order {:?}", order));
        // c.lua does not depend on anything: it is written
        assert_eq!(outcome.3.as_deref(), Some("return 'c'\n"));
        // b.lua is reported with its path
        assert!(
            outcome.1.iter().any(|error| error.contains("src/b.lua")),
            "{:?}",
            outcome.1
        );
    }
}
