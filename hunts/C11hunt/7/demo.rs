//! C11: an input that cannot be read is reported with its path. An input path that does not
//! exist (a typo in the file name) is silently treated as an empty directory: the run is a
//! success with 0 file processed.
use darklua_core::{Configuration, Options, Resources};

fn errors_for(resources: &Resources, options: Options) -> Vec<String> {
    match darklua_core::process(resources, options) {
        Err(error) => vec![error.to_string()],
        Ok(tree) => tree
            .collect_errors()
            .into_iter()
            .map(ToString::to_string)
            .collect(),
    }
}

#[test]
fn missing_input_file_is_reported_with_an_output() {
    let resources = Resources::from_memory();
    resources.write("src/main.lua", "return 1\n").unwrap();

    // typo: `src/mian.lua` does not exist
    let errors = errors_for(
        &resources,
        Options::new("src/mian.lua")
            .with_output("out/main.lua")
            .with_configuration(Configuration::empty()),
    );

    assert!(
        errors.iter().any(|error| error.contains("src/mian.lua")),
        "the missing input `src/mian.lua` is not reported (errors: {:?})",
        errors
    );
}

#[test]
fn missing_input_file_is_reported_in_place() {
    let resources = Resources::from_memory();
    resources.write("src/main.lua", "return 1\n").unwrap();

    let errors = errors_for(
        &resources,
        Options::new("src/mian.lua").with_configuration(Configuration::empty()),
    );

    assert!(
        errors.iter().any(|error| error.contains("src/mian.lua")),
        "the missing input `src/mian.lua` is not reported (errors: {:?})",
        errors
    );
}

#[test]
fn missing_input_file_is_reported_on_the_file_system() {
    let directory = tempfile::tempdir().unwrap();
    let input = directory.path().join("mian.lua");

    let errors = errors_for(
        &Resources::from_file_system(),
        Options::new(&input)
            .with_output(directory.path().join("out.lua"))
            .with_configuration(Configuration::empty()),
    );

    assert!(
        errors.iter().any(|error| error.contains("mian.lua")),
        "the missing input `mian.lua` is not reported (errors: {:?})",
        errors
    );
}
