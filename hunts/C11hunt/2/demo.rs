//! C11: a destination that cannot be written must be reported for its file. A write that
//! fails when the buffered writer is flushed (device full) is silently ignored.
#![cfg(unix)]
use std::fs;

use darklua_core::{Configuration, Options, Resources};

#[test]
fn failed_write_of_a_small_file_is_reported() {
    if !std::path::Path::new("/dev/full").exists() {
        return;
    }
    let directory = tempfile::tempdir().unwrap();
    let root = directory.path();
    fs::create_dir_all(root.join("src")).unwrap();
    fs::create_dir_all(root.join("out")).unwrap();
    fs::write(root.join("src/a.lua"), "return 'a'\n").unwrap();
    fs::write(root.join("src/b.lua"), "return 'b'\n").unwrap();
    // the destination of a.lua is on a device without any space left
    std::os::unix::fs::symlink("/dev/full", root.join("out/a.lua")).unwrap();

    let resources = Resources::from_file_system();
    let tree = darklua_core::process(
        &resources,
        Options::new(root.join("src"))
            .with_output(root.join("out"))
            .with_configuration(Configuration::empty()),
    )
    .unwrap();

    // b.lua is fine
    assert_eq!(fs::read_to_string(root.join("out/b.lua")).unwrap(), "return 'b'\n");

    // not a single byte of a.lua could be written: it must be reported
    let errors: Vec<String> = tree
        .collect_errors()
        .into_iter()
        .map(ToString::to_string)
        .collect();
    assert_eq!(
        (tree.success_count(), errors.len()),
        (1, 1),
        "a.lua was not written (no space left on device) but is counted as a success; errors: {:?}",
        errors
    );
    assert!(errors[0].contains("a.lua"), "{}", errors[0]);
}
