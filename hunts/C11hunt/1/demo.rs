//! C11: in-place processing of a directory with a `bundle` configuration gives outputs that
//! depend on the order in which the files are enumerated.
use darklua_core::{Configuration, Options, Resources, WorkerTree};

const CONFIG: &str = r#"{
    "bundle": { "require_mode": "path" },
    "rules": [ { "rule": "append_text_comment", "text": "processed" } ]
}"#;

const A: &str = "local b = require('./b')\nreturn b\n";
const B: &str = "return 1\n";

fn new_resources() -> Resources {
    let resources = Resources::from_memory();
    resources.write("src/a.lua", A).unwrap();
    resources.write("src/b.lua", B).unwrap();
    resources
}

fn configuration() -> Configuration {
    json5::from_str(CONFIG).unwrap()
}

/// process `src` in place, enumerating the files in the given order
fn run_in_place(order: &[&str]) -> (String, String) {
    let resources = new_resources();
    let mut tree = WorkerTree::default();
    for path in order {
        tree.add_source(path, None);
    }
    tree.process(
        &resources,
        Options::new("src").with_configuration(configuration()),
    )
    .unwrap();
    assert_eq!(tree.collect_errors().len(), 0);
    assert_eq!(tree.success_count(), 2);
    (
        resources.get("src/a.lua").unwrap(),
        resources.get("src/b.lua").unwrap(),
    )
}

#[test]
fn in_place_bundle_does_not_depend_on_the_enumeration_order() {
    let a_then_b = run_in_place(&["src/a.lua", "src/b.lua"]);
    let b_then_a = run_in_place(&["src/b.lua", "src/a.lua"]);

    pretty_assertions::assert_eq!(a_then_b, b_then_a);
}

#[test]
fn in_place_bundle_gives_what_an_output_directory_gives() {
    // reference: same tree written to another location (sources are left untouched)
    let resources = new_resources();
    darklua_core::process(
        &resources,
        Options::new("src")
            .with_output("out")
            .with_configuration(configuration()),
    )
    .unwrap()
    .result()
    .unwrap();
    let expected = (
        resources.get("out/a.lua").unwrap(),
        resources.get("out/b.lua").unwrap(),
    );

    for order in [["src/a.lua", "src/b.lua"], ["src/b.lua", "src/a.lua"]] {
        pretty_assertions::assert_eq!(run_in_place(&order), expected, "order {:?}", order);
    }
}
