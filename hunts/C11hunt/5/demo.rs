//! C11: a file whose destination cannot be written must be reported *with its path*.
//! When the directory of the destination cannot be created, the error only names that
//! directory: neither the source nor the destination file appears in it.
use std::fs;

use darklua_core::{Configuration, Options, Resources};

#[test]
fn unwritable_destination_is_reported_with_the_path_of_the_file() {
    let directory = tempfile::tempdir().unwrap();
    let root = directory.path();
    fs::create_dir_all(root.join("src/sub")).unwrap();
    fs::write(root.join("src/ok.lua"), "return 'ok'\n").unwrap();
    fs::write(root.join("src/sub/one.lua"), "return 1\n").unwrap();
    fs::write(root.join("src/sub/two.lua"), "return 2\n").unwrap();
    // `out/sub` exists and is a regular file: nothing can be written under it
    fs::create_dir_all(root.join("out")).unwrap();
    fs::write(root.join("out/sub"), "not a directory").unwrap();

    let resources = Resources::from_file_system();
    let tree = darklua_core::process(
        &resources,
        Options::new(root.join("src"))
            .with_output(root.join("out"))
            .with_configuration(Configuration::empty()),
    )
    .unwrap();

    assert_eq!(tree.success_count(), 1);
    assert_eq!(
        fs::read_to_string(root.join("out/ok.lua")).unwrap(),
        "return 'ok'\n"
    );

    let mut errors: Vec<String> = tree
        .collect_errors()
        .into_iter()
        .map(|error| error.to_string().replace(&root.display().to_string(), "<root>"))
        .collect();
    errors.sort();
    assert_eq!(errors.len(), 2, "{:?}", errors);

    // each failure names its file
    for name in ["one.lua", "two.lua"] {
        assert!(
            errors.iter().any(|error| error.contains(name)),
            "no error mentions `{}`: {:#?}",
            name,
            errors
        );
    }
}
