//! C11: running the same batch twice must give byte-identical outputs. With two aliases of
//! the target require mode pointing to the same directory, `convert_require` picks one at
//! random (hash map iteration order).
use darklua_core::{Options, Resources};

const CONFIG: &str = r#"{
    "generator": "retain_lines",
    "rules": [
        {
            "rule": "convert_require",
            "current": "path",
            "target": {
                "name": "path",
                "sources": {
                    "@pkg": "src/packages",
                    "@packages": "src/packages",
                    "@vendor": "src/packages",
                    "@libs": "src/packages"
                }
            }
        }
    ]
}"#;

fn run_once() -> String {
    let resources = Resources::from_memory();
    resources
        .write(
            "src/main.lua",
            "local x = require(\"./packages/x\")\nreturn x\n",
        )
        .unwrap();
    resources.write("src/packages/x.lua", "return 1\n").unwrap();

    // the default configuration file (the aliases are relative to its location)
    resources.write(".darklua.json", CONFIG).unwrap();

    darklua_core::process(
        &resources,
        Options::new("src").with_output("out"),
    )
    .unwrap()
    .result()
    .unwrap();

    resources.get("out/main.lua").unwrap()
}

#[test]
fn repeated_runs_write_the_same_require() {
    let first = run_once();
    for attempt in 1..40 {
        let other = run_once();
        assert_eq!(first, other, "run #{} differs from the first run", attempt);
    }
}
