#!/bin/bash
# C11: one file that darklua cannot handle (a long, perfectly legal, chain of additions) must
# be reported and must not prevent the other files of the batch from being written.
# Actual: the whole process aborts (stack overflow), nothing is reported for the file and the
# files that come after it in the enumeration order are never written.
BIN="${DARKLUA_BIN:-target/debug/darklua}"
if [ ! -x "$BIN" ] && [ -n "$CARGO_TARGET_DIR" ]; then BIN="$CARGO_TARGET_DIR/debug/darklua"; fi
BIN="$(cd "$(dirname "$BIN")" && pwd)/$(basename "$BIN")"
if [ ! -x "$BIN" ]; then echo "darklua binary not found ($BIN)"; exit 2; fi

WORK="$(mktemp -d)"
trap 'rm -rf "$WORK"' EXIT
cd "$WORK" || exit 2
mkdir -p src

# ten small valid files
for name in a b c d e v w x y z; do
    printf 'return "%s"\n' "$name" > "src/$name.lua"
done
# `return 1+1+1+ ... +1` with 60000 additions: no Lua or Luau implementation limits the length
# of a chain of left associative operators (there is no nesting in the source)
{
    printf 'return '
    for _ in $(seq 1 600); do
        printf '1+%.0s' $(seq 1 100)
    done
    printf '1\n'
} > src/long.lua
printf '{ "rules": [] }' > config.json

"$BIN" process --config config.json src out > stdout.txt 2> stderr.txt
code=$?
echo "exit code: $code"
tail -n 3 stderr.txt

missing=0
for name in a b c d e v w x y z; do
    if [ ! -f "out/$name.lua" ]; then
        echo "VIOLATION: out/$name.lua was not written"
        missing=1
    fi
done
# long.lua is either written or reported with its path
if [ ! -f out/long.lua ] && ! grep -q 'long.lua' stderr.txt; then
    echo "VIOLATION: src/long.lua is neither written nor reported"
    missing=1
fi
if [ "$missing" -ne 0 ] || [ "$code" -ge 128 ]; then
    echo "the batch was aborted by a single file (exit code $code)"
    exit 1
fi
echo "ok"
exit 0
