//! C11: when the output location is inside the input directory (`darklua process . out`),
//! the files already written to the output are collected as inputs: a second run writes new
//! files (out/out/...) on top of the ones of the first run.
use std::collections::BTreeMap;
use std::fs;
use std::path::Path;

use darklua_core::{Configuration, Options, Resources};

fn snapshot(root: &Path) -> BTreeMap<String, String> {
    fn visit(root: &Path, directory: &Path, files: &mut BTreeMap<String, String>) {
        for entry in fs::read_dir(directory).unwrap() {
            let path = entry.unwrap().path();
            if path.is_dir() {
                visit(root, &path, files);
            } else {
                files.insert(
                    path.strip_prefix(root).unwrap().display().to_string(),
                    fs::read_to_string(&path).unwrap(),
                );
            }
        }
    }
    let mut files = BTreeMap::new();
    visit(root, root, &mut files);
    files
}

fn configuration() -> Configuration {
    json5::from_str(r#"{ "generator": "dense", "rules": ["remove_comments"] }"#).unwrap()
}

/// returns false if darklua refuses the layout
fn run(input: &Path, output: &Path) -> bool {
    let resources = Resources::from_file_system();
    match darklua_core::process(
        &resources,
        Options::new(input)
            .with_output(output)
            .with_configuration(configuration()),
    ) {
        Ok(tree) => tree.result().is_ok(),
        Err(_) => false,
    }
}

#[test]
fn running_twice_with_the_output_under_the_input_gives_the_same_files() {
    let directory = tempfile::tempdir().unwrap();
    let root = directory.path();
    fs::create_dir_all(root.join("src")).unwrap();
    fs::write(root.join("src/a.lua"), "-- comment\nreturn 'a'\n").unwrap();

    // equivalent of `cd root && darklua process . out`
    if !run(root, &root.join("out")) {
        return; // refusing the layout is fine
    }
    let after_first_run = snapshot(root);
    assert_eq!(
        after_first_run.keys().collect::<Vec<_>>(),
        ["out/src/a.lua", "src/a.lua"]
    );

    if !run(root, &root.join("out")) {
        return;
    }
    let after_second_run = snapshot(root);

    pretty_assertions::assert_eq!(after_first_run, after_second_run);
}
