#!/usr/bin/env python3
import json,glob,sys,collections,re
prop=sys.argv[1]
groups=collections.defaultdict(list)
for f in glob.glob(f'/verif/replays/{prop}/*.json'):
    d=json.load(open(f)); r=d['replay']
    if isinstance(r,dict) and 'first_bad_rule' in r:
        key=(r.get('first_bad_rule'),)
    else:
        key=(d['summary'][:60],)
    groups[key].append(d)
for k,v in sorted(groups.items(), key=lambda kv:-len(kv[1])):
    print('=====',k,len(v))
    seen=set()
    for d in v:
        r=d['replay']
        if not isinstance(r,dict) or 'seed' not in r: print(d['summary'][:500]); continue
        body=r['seed'].split('\n',3)[-1].strip() if r['seed'].startswith('local x = 3') else r['seed'].strip()
        if body in seen: continue
        seen.add(body)
        if len(seen)>int(sys.argv[2]) if len(sys.argv)>2 else 12: break
        print('  SEED:',body.replace('\n',' ⏎ '),'  PRE:',(r.get('pre_state') or '')[-60:].replace('\n',' ⏎ '),'\n      OUT:',r.get('output','').strip()[-100:].replace('\n',' ⏎ '),'\n      EXP:',r.get('expected'),'\n      ACT:',(r.get('actual') or '')[:300])
