#!/usr/bin/env python3
"""Regenerates the generated tables of DESIGN.md (between `<!-- BEGIN GENERATED:x -->` / `<!-- END GENERATED:x -->`)
from MANIFEST.json, evidence/*.json, known_findings.json and seeded/*/meta.json."""
import json, glob, os, re

V = "/verif"
design = open(f"{V}/DESIGN.md").read()


def block(name, text):
    global design
    b, e = f"<!-- BEGIN GENERATED:{name} -->", f"<!-- END GENERATED:{name} -->"
    if b not in design:
        raise SystemExit(f"marker {name} missing in DESIGN.md")
    i, j = design.index(b) + len(b), design.index(e)
    design = design[:i] + "\n" + text.rstrip() + "\n" + design[j:]


def cell(s):
    return str(s).replace("|", "\\|").replace("\n", " ")


# ---- status table
manifest = json.load(open(f"{V}/MANIFEST.json"))
rows = ["| property | level claimed | engine | quick: evaluations / states / transitions | known findings matched | wall (quick) |", "|---|---|---|---|---|---|"]
for c in manifest["checks"]:
    pid = c["property_id"]
    ev = {}
    try:
        ev = json.load(open(f"{V}/evidence/{pid}.json"))
    except Exception:
        pass
    cov = ev.get("coverage", {})
    level = c["level_claimed"]["category"] if isinstance(c["level_claimed"], dict) else c["level_claimed"]
    rows.append(
        f"| {pid} | {level} | {cell(c['level_claimed'].get('design_ref', '')) if isinstance(c['level_claimed'], dict) else ''} | "
        f"{cov.get('evaluations', '?')} / {cov.get('states', 0)} / {cov.get('transitions', 0)} | "
        f"{sum(cov.get('known_findings_matched', {}).values()) if isinstance(cov.get('known_findings_matched'), dict) else 0} | {round(ev.get('wall_s', 0), 1)} s |"
    )
block("status", "\n".join(rows))

# ---- known findings and fixes
kf = json.load(open(f"{V}/known_findings.json"))
rows = ["| property | finding id | what fails (first sentence) |", "|---|---|---|"]
for f in kf["findings"]:
    what = f["what"]
    rows.append(f"| {f['property']} | `{f['id']}` | {cell(what[:400])}{'…' if len(what) > 400 else ''} |")
block("known", "\n".join(rows))

rows = ["| property | fix commit | what failed |", "|---|---|---|"]
for line in kf["fixed"]:
    m = re.match(r"fixed: property=(\S+)( \(\S+\))? (\S+) (.*)", line)
    if m:
        rows.append(f"| {m.group(1)}{m.group(2) or ''} | `{m.group(3)}` | {cell(m.group(4))} |")
    else:
        rows.append(f"| ? | ? | {cell(line)} |")
block("fixed", "\n".join(rows))

# ---- seeded changes
rows = ["| seeded change | file(s) changed | what it breaks | needs, to manifest | detected by (quick tier, exit / VIOLATION lines) |", "|---|---|---|---|---|"]
for d in sorted(glob.glob(f"{V}/seeded/*/")):
    name = os.path.basename(d.rstrip("/"))
    try:
        m = json.load(open(d + "meta.json"))
    except Exception:
        continue
    det = m.get("detected_by", {})
    dets = ", ".join(f"{k}: exit {v['exit']} / {v['violation_lines']}" for k, v in det.items())
    files = ", ".join(os.path.basename(f) for f in m.get("files_changed", [])) if isinstance(m.get("files_changed"), list) else cell(m.get("files_changed", ""))
    summ = m.get("summary", "")
    needs = m.get("needs_to_manifest", "")
    rows.append(f"| {name} | {cell(files)} | {cell(summ[:260])}{'…' if len(summ) > 260 else ''} | {cell(needs[:200])}{'…' if len(needs) > 200 else ''} | {dets} |")
block("seeded", "\n".join(rows))

open(f"{V}/DESIGN.md", "w").write(design)
print("DESIGN.md tables regenerated")
