#!/bin/bash
# usage: seedall.sh <tag e.g. C01r2> [extra checks...]  -- confirm the three seeded changes of a worktree and run the checks against them
T=$1; shift; P=${T:0:3}
for n in 1 2 3; do
  [ -d /tmp/wt_$T/seeded/$n ] || continue
  /verif/seedcheck.sh $T $n > /tmp/seedcheck_${T}_$n.log 2>&1
  ok=$(grep -c "test result: ok" /tmp/seedcheck_${T}_$n.log)
  fails=$(sed -n '/== suite with change/,/== demo with change/p' /tmp/seedcheck_${T}_$n.log | grep -cE "FAILED|[1-9][0-9]* failed" )
  dw=$(sed -n '/== demo with change/,/== demo without change/p' /tmp/seedcheck_${T}_$n.log | grep "^test result" | head -1)
  dwo=$(sed -n '/== demo without change/,$p' /tmp/seedcheck_${T}_$n.log | grep "^test result" | head -1)
  echo "##### $T-$n suite_ok_lines=$ok suite_fail_lines=$fails | with: $dw | without: $dwo"
  python3 -c "
import json; m=json.load(open('/tmp/wt_$T/seeded/$n/meta.json')); print('   files:', m.get('files_changed')); print('   ', str(m.get('summary'))[:300])"
  /verif/seedrun.sh /tmp/wt_$T/seeded/$n/patch.diff $P "$@" 2>&1 | grep "^--- " | cut -c1-200
done
