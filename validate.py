#!/opt/veriftools/pyvenv/bin/python
import json,jsonschema,sys,glob
jsonschema.validate(json.load(open('/verif/MANIFEST.json')),json.load(open('/root/.vp/MANIFEST.schema.json')))
ev=json.load(open('/root/.vp/EVIDENCE.schema.json'))
for f in sorted(glob.glob('/verif/evidence/*.json')):
    try:
        jsonschema.validate(json.load(open(f)),ev); print('ok',f)
    except Exception as e:
        print('INVALID',f,str(e)[:300])
m=json.load(open('/verif/MANIFEST.json'))
ids=[c['property_id'] for c in m['checks']]+[n['property_id'] for n in m.get('not_applicable',[])]
assert sorted(ids)==['C%02d'%i for i in range(1,21)], ids
print('manifest ok', len(m['checks']),'checks')
