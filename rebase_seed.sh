#!/bin/bash
# usage: rebase_seed.sh <id> <check...>  -- /repo holds the seeded change ported by hand to the current tree:
# store it as the new patch.diff (the original is kept as patch.orig.diff), run the checks, note it in meta.json, undo.
ID=$1; shift
D=/verif/seeded/$ID
cd /repo && git diff --quiet && { echo "/repo is clean: port the change first"; exit 2; }
cargo build --offline 2>&1 | grep -E "^error" -A6 && { echo "DOES NOT BUILD"; exit 2; }
[ -f $D/patch.orig.diff ] || cp $D/patch.diff $D/patch.orig.diff
git -C /repo diff > $D/patch.diff
RESULT=""
for c in "$@"; do
  out=$(VERIF_EVIDENCE_DIR=/verif/target/seeded-evidence /verif/check $c quick 2>&1); code=$?
  line="$c exit=$code: $(echo "$out" | grep -c '^VIOLATION') VIOLATION lines; $(echo "$out" | tail -1 | cut -c1-150)"
  echo "--- $line"; echo "$out" | grep -A2 "^VIOLATION" | head -6
  RESULT="$RESULT$line | "
done
python3 - "$D" "$(git -C /repo log --format=%h -1)" "$RESULT" <<'PY'
import json,sys
d,head,result=sys.argv[1],sys.argv[2],sys.argv[3]
p=d+'/meta.json'
m=json.load(open(p))
m['rebased']={"onto": head, "why": "fix: commits made after this change was seeded touch the same lines; the same change was ported by hand to the current tree (the original is patch.orig.diff)", "detected_after_rebase": result}
json.dump(m,open(p,'w'),indent=1,ensure_ascii=False)
PY
git -C /repo checkout -- .
