#!/usr/bin/env python3
"""Regenerates /verif/MANIFEST.json from the table below (kept in one place so it stays valid)."""
import json
CHECKS = {
 "C01": dict(
   level="model_checking", design="5/C01, 2 (Engine A)",
   technique="explicit-state BFS of the rule-pipeline transition system on real ASTs (13 default rules, to closure) + differential execution in an independent reference interpreter",
   text="Every state reachable from every seed program (contexts x expression fragments, two-hole contexts, scope sequences S(n), metatable/loop/closure families) by any sequence of the 13 default rules is enumerated (BFS to closure, both parser modes); each state is written by retain_lines, dense and readable and executed by luaref; external-call log and return values must equal the seed's. The default configuration is additionally run end to end through darklua_core::process and must be byte-identical to the engine's output (traces_validated_against_impl).",
   note="Trusts luaref (own lexer/parser/interpreter, validated by ~220 conformance vectors on every start), the Debug rendering as an injective state key, and that behaviour outside the bounded seed grammar is not claimed. Seeds whose original run errors/diverges/reaches dialect-dependent behaviour are skipped and counted."),
}
NOT_BUILT = "check not built yet (work in progress; see DESIGN.md section 5 for the planned decision procedure)"
props=[json.loads(l) for l in open('/verif/properties.jsonl')]
checks=[]; na=[]
for p in props:
    i=p["id"]
    if i in CHECKS:
        c=CHECKS[i]
        checks.append({
          "property_id":i,
          "quick_cmd":f"/verif/check {i} quick",
          "thorough_cmd":f"/verif/check {i} thorough",
          "evidence_file":f"/verif/evidence/{i}.json",
          "replay_cmd_template":f"/verif/check {i} --replay {{path}}",
          "engine":"dlverif",
          "level_claimed":{"category":c["level"],"text":c["text"],"design_ref":c["design"]},
          "level_note":c["note"],
          "technique":c["technique"],
        })
    else:
        na.append({"property_id":i,"reason":NOT_BUILT})
m={
 "version":1,
 "setup_cmd":"cd /verif/harness && CARGO_NET_OFFLINE=true cargo build --release --offline && /verif/target/release/dlverif selftest",
 "hooks":{"guard":"cargo feature `verif-hooks` of the darklua crate (off by default)",
          "enable":"the harness depends on darklua = { path = \"/repo\", features = [\"verif-hooks\"] }; every check runs `cargo build` first and so rebuilds from /repo's working tree",
          "baseline_off_cmd":"cd /repo && cargo test --workspace --no-fail-fast --offline",
          "source_commits":["1f1f16b","954e2c5"],"add_only":True},
 "engines":[{"name":"dlverif","path":"/verif/harness","serves_properties":sorted(CHECKS.keys()),
             "kind_free_text":"Rust harness linking darklua_core from /repo; bounded-exhaustive explicit-state exploration (rule-pipeline graph, worker/file-system histories, bounded input spaces) judged by an independent Lua reference implementation (luaref)"}],
 "checks":checks,
 "not_applicable":na,
 "notes":"DESIGN.md explains the approach; known_findings.json lists recorded defects and fix commits; seeded/ holds the property-breaking changes used to test the checks.",
}
json.dump(m,open('/verif/MANIFEST.json','w'),indent=1)
print(len(checks),"checks",len(na),"not applicable")
