#!/bin/bash
# usage: mkhunt.sh <Cxx> [tag]  -- creates the scratch worktree /tmp/wt_<tag> (default tag <Cxx>hunt) and prints the prompt for a
# sub-agent that looks for violations of the property on the UNMODIFIED tree. The agent gets the property text only.
P=$1; TAG=${2:-${P}hunt}; WT=/tmp/wt_$TAG
git -C /repo worktree add --detach $WT HEAD >/dev/null 2>&1 || { echo "cannot create $WT" >&2; exit 2; }
python3 - "$P" "$WT" <<'PY'
import json,sys
pid,wt=sys.argv[1],sys.argv[2]
prop=[json.loads(l) for l in open('/verif/properties.jsonl') if l.strip() and json.loads(l)['id']==pid][0]
print(f"""You are working on darklua (a Rust CLI and library that parses Lua 5.1 / Luau code into its own AST, applies configurable transformation rules and regenerates code). Your working copy is the git worktree {wt} - work ONLY inside that directory (never touch /repo or any other directory; do not look at /verif). There is no network: build with `cargo build --offline`, run tests with `cargo test --offline` (set CARGO_TARGET_DIR={wt}/target). There is no Lua or Luau interpreter in this sandbox: judge behaviour from the Lua 5.1 manual and the Luau language semantics you know, and say how confident you are.

Here is a property that darklua is supposed to satisfy:

  id: {prop['id']}
  title: {prop['title']}
  statement: {prop['statement']}
  quantified over: {prop['quantifier']['text']}
  code it is anchored in: {', '.join(prop['anchors']['files'])}

YOUR TASK: find inputs (source texts, configurations, file layouts, command sequences - whatever the property quantifies over) on which the UNMODIFIED code in {wt} VIOLATES this property. Do not change anything under src/. Read the anchored code, think about which inputs its authors did not think of (unusual but legal syntax, corner values, combinations of options, orderings, boundaries), and try them for real by writing small integration tests or by running the built binary.

Rules:
* Only report a genuine violation of the property as stated and quantified - not style issues, not missing features, not things the documentation (site/content/) explicitly defines as the intended behaviour. Inputs must be legal for the dialect concerned.
* Each finding must have a DIFFERENT root cause. Up to 8 findings. Prefer findings reachable from parsed source code / real configurations over ones that need AST nodes built by hand through the API.
* For each finding n create the directory {wt}/found/n/ with
    - demo.rs : a self-contained integration test (it will be copied to tests/found_demo.rs and run with `cargo test --offline --test found_demo`) that FAILS on the unmodified tree because of the violation and would pass if darklua behaved correctly; or demo.sh when the finding needs the built binary (`target/debug/darklua`), exit code 1 on the violation;
    - meta.json : {{"property": "{prop['id']}", "input": "...", "actual_output": "...", "expected": "...", "why_wrong": "...", "root_cause": "file:function and what it does wrong", "suggested_fix": "..."}}
  Run every demo yourself and make sure it fails for the reason you state. Remove any file you added outside found/ (tests/found_demo.rs etc.) before you finish; leave src/ untouched.
* Finish with a short list of the findings (one line each: input, wrong output, root cause) and of the things you checked that turned out fine.""")
PY
